#!/usr/bin/env python3
"""Generate a patched copy of nalgebra 0.33.3 (from the offline cargo registry) with an SVD hook.

Add-only patch (nothing removed):
  * src/linalg/svd.rs  : at the top of the general path of `SVD::try_new_unordered` a call to
                         `__verif_svd_hook` (extern "Rust" symbol, defined by every harness binary;
                         under cfg(kani) a plain stub-able function instead).  If the hook returns
                         `false` nalgebra behaves exactly as published.
  * src/linalg/mod.rs  : `#[cfg(kani)] pub unsafe fn verif_svd_hook_kani(..) -> bool { false }`.
nalgebra's sources use CRLF line endings; files are read/written with newline='' to keep them.
"""
import glob, os, shutil, sys

HOOK = r'''        // ---- verification hook (added by /verif; environment stub for the SVD) ----
        if TypeId::of::<T>() == TypeId::of::<T::RealField>() {
            #[cfg(not(kani))]
            extern "Rust" {
                fn __verif_svd_hook(
                    tid: TypeId, data: *const u8, nrows: usize, ncols: usize,
                    u: *mut u8, s: *mut u8, vt: *mut u8, eps: *const u8, max_niter: usize,
                ) -> bool;
            }
            #[cfg(kani)]
            use crate::linalg::verif_svd_hook_kani as __verif_svd_hook;
            let mut u_out = OMatrix::<T, R, DimMinimum<R, C>>::zeros_generic(nrows, min_nrows_ncols);
            let mut vt_out = OMatrix::<T, DimMinimum<R, C>, C>::zeros_generic(min_nrows_ncols, ncols);
            let mut s_out = OVector::<T::RealField, DimMinimum<R, C>>::zeros_generic(min_nrows_ncols, U1);
            let handled = unsafe {
                __verif_svd_hook(
                    TypeId::of::<T>(), matrix.as_slice().as_ptr() as *const u8, nrows.value(), ncols.value(),
                    u_out.as_mut_slice().as_mut_ptr() as *mut u8, s_out.as_mut_slice().as_mut_ptr() as *mut u8,
                    vt_out.as_mut_slice().as_mut_ptr() as *mut u8,
                    &eps as *const T::RealField as *const u8, max_niter,
                )
            };
            if handled {
                return Some(Self {
                    u: if compute_u { Some(u_out) } else { None },
                    v_t: if compute_v { Some(vt_out) } else { None },
                    singular_values: s_out,
                });
            }
        }
        // ---- end verification hook ----
'''
KANI_FN = r'''
/// verification hook used only under `cfg(kani)`; replaced with `#[kani::stub]` by harnesses
#[cfg(kani)]
#[allow(clippy::too_many_arguments)]
pub unsafe fn verif_svd_hook_kani(_tid: core::any::TypeId, _data: *const u8, _nrows: usize, _ncols: usize, _u: *mut u8, _s: *mut u8, _vt: *mut u8, _eps: *const u8, _max_niter: usize) -> bool { false }
'''


VERSION = "v2-eps-maxniter"


def find_registry_src():
    home = os.environ.get("CARGO_HOME", os.path.expanduser("~/.cargo"))
    hits = sorted(glob.glob(os.path.join(home, "registry/src/*/nalgebra-0.33.3")))
    if not hits:
        raise SystemExit("nalgebra-0.33.3 not found in the cargo registry")
    return hits[0]


def patch_file(path, anchor, insert, before=True):
    with open(path, newline="") as f:
        txt = f.read()
    crlf = "\r\n" in txt
    ins = insert.replace("\n", "\r\n") if crlf else insert
    if "verif_svd_hook" in txt:
        return
    idx = txt.find(anchor)
    if idx < 0 or txt.find(anchor, idx + 1) >= 0:
        raise SystemExit(f"anchor not found exactly once in {path}: {anchor!r}")
    if before:
        # insert before the *line* containing the anchor
        ls = txt.rfind("\n", 0, idx) + 1
        txt = txt[:ls] + ins + txt[ls:]
    else:
        le = txt.find("\n", idx) + 1
        txt = txt[:le] + ins + txt[le:]
    with open(path, "w", newline="") as f:
        f.write(txt)


def generate(dst):
    src = find_registry_src()
    stamp = os.path.join(dst, ".verif-patched")
    if os.path.exists(stamp) and open(stamp).read().strip() == VERSION:
        return dst
    if os.path.exists(dst):
        shutil.rmtree(dst)
    shutil.copytree(src, dst, ignore=shutil.ignore_patterns("target"))
    patch_file(os.path.join(dst, "src/linalg/svd.rs"), "let dim = min_nrows_ncols.value();", HOOK, before=True)
    # append the kani function at the end of linalg/mod.rs
    p = os.path.join(dst, "src/linalg/mod.rs")
    with open(p, newline="") as f:
        txt = f.read()
    if "verif_svd_hook_kani" not in txt:
        add = KANI_FN.replace("\n", "\r\n") if "\r\n" in txt else KANI_FN
        with open(p, "w", newline="") as f:
            f.write(txt + add)
    open(stamp, "w").write(VERSION + "\n")
    return dst


if __name__ == "__main__":
    print(generate(sys.argv[1]))
