#!/usr/bin/env python3
"""Generates /verif/MANIFEST.json from the table below (kept in one place so that claims stay consistent)."""
import json, os
HERE = os.path.dirname(os.path.dirname(os.path.abspath(__file__)))

R = "Engine R: the real generic varpro/nalgebra code is executed on a symbolic real scalar (operator-level symbolic execution); every output element is an SMT term; obligations `path condition AND assumptions AND NOT property` are decided by z3 4.8.12 / z3 5.1 / cvc5 (QF_NRA / QF_UFNRA, plain and fraction-free encodings); all feasible paths are explored by flipping recorded branch decisions; counterexamples are replayed natively on f64 (dev and release) before a VIOLATION is printed"
K = "Engine K: Kani 0.68 / CBMC 6.11 proof harnesses compiled inside an overlay copy of the crate (private state reachable), bounded by #[kani::unwind], unwinding assertions on"
M = "Engine M: symbolic execution of the nightly MIR of the listed functions (64-bit bit-vectors for usize, uninterpreted model calls with symbolic fault Booleans), all paths, decided by z3; paths and counterexamples replayed natively"
N = "Engine N (supplementary, NOT solver-based): native runs of the real build on f64/f32 under a watchdog -- non-finite/extreme inputs, homogeneity in the observations at scales 2^-540..2^500, degenerate shapes, a model failure at every call index, all termination reasons, builder decision table on small sizes; adds detection power and replayable inputs, never the deciding step"
REAL = "decided over the reals (IEEE rounding/overflow outside the claim: floating-point special cases -- squares leaving the range, exact zeros, the f32 width -- are only looked at by the supplementary native tier); the solver work of a run has a wall-clock budget (780 s quick / 6 h thorough), obligations not decided within it are listed as undischarged, never counted; SVD for M>=2 replaced by a planted exact factorisation whose input matrix is proved equal to W*Phi; frames exact rational or rationally parametrised rotations with symbolic parameters (sizes <= 3), shapes bounded (N<=4, M<=3, S<=3, P<=2 quick); trusted: rustc, nalgebra generic kernels, z3/cvc5, the Sym scalar (validated against native f64 runs each time)"

CHECKS = {
 "C01": dict(tech="symbolic execution of real code on a symbolic scalar + SMT (QF_NRA)", engines=[R],
             text="For every explored shape/frame and EVERY value of singular values, weights, observations, threshold: the matrix handed to the SVD is W*Phi, the reported coefficients equal the truncated closed form V_r S_r^-1 U_r^T W Y, for EVERY set of retained singular values stated as an explicit premise (sigma_j > eps kept, sigma_j <= eps counts as zero; the specification never reads the implementation's rank decision), satisfy the normal equations in the full-rank case, are minimum-norm and optimal in the retained subspace in every truncated case; the SVD is called with a constant convergence tolerance <= 1e-9, depend linearly on Y, and every divisor is non-zero on every path. Bounded model checking: all paths of the real set_params/build inside the shape bound (N <= 4, M <= 3, S <= 3, including more right-hand sides than observations).",
             note=REAL),
 "C02": dict(tech="symbolic execution of real code on a symbolic scalar + SMT (QF_NRA)", engines=[R, K],
             text="residuals() == column-stacked W*Y - (W*Phi)*C, weighted_data() == W*Y, best_fit() == Phi*C in the shape of the observations, params()/nonlinear_parameters() == the alpha last applied, for all values inside the shape bound and after one- and two-step update histories.", note=REAL),
 "C03": dict(tech="symbolic execution of real code on a symbolic scalar + SMT (QF_NRA)", engines=[R, K],
             text="On every full-rank path: each Jacobian block equals -(I-UU^T) W D_k c_s with U an orthonormal basis of range(W*Phi) (planted), is orthogonal to range(W*Phi); arbitrary derivative matrices D_k cover shared parameters. A failing derivative at any k gives None (concrete fact per path).", note=REAL + "; the gradient identity 2 J^T r = grad ||r||^2 follows from the Kaufman form and is not separately encoded"),
 "C04": dict(tech="symbolic execution of the MIR (EUF + fault Booleans) + Kani on the real LM driver + symbolic execution on a symbolic scalar", engines=[M, K, R],
             text="fit() returns Ok exactly when was_successful(report) for an ARBITRARY optimizer (minimize uninterpreted), and in both cases the payload is FitResult{into_sequential(final problem), report} field by field (MIR, all paths, both overflow profiles). Through the REAL levenberg-marquardt driver (Kani, thorough tier): a failed evaluation gives Err(User) carrying the problem, a failing derivative gives Err(User), zero residuals give Ok. Through the REAL driver on the symbolic scalar (scenario symfit: affine model Phi(alpha)=A+sum alpha_k B_k with symbolic A,B_k, one basis function, real nalgebra SVD, patience 1..3 quick / 1..6 thorough, P<=2 quick / <=3 thorough, N<=5; scenario symfit2: TWO basis functions, the model defined through its planted factors W Phi(alpha) = R01(alpha_0) R23(alpha_1) U0 diag(sigma) V0^T with rational rotations, planted afresh at every evaluation and the SVD's input proved equal to the planted product at every call; for the returned problem the whole obligation set of the core scenario -- C01 closed form per rank case, normal equations, C02 residuals, C03 Kaufman Jacobian -- at alpha-hat): on every explored path (100-1500 recorded decisions of optimizer and library) and for EVERY value of A, B_k, observations, weights, initial guess following it: Ok <=> successful termination; the returned problem has its state whenever the model never failed (Ok or Err); params() of the returned problem = reported alpha; its coefficients are the weighted least-squares optimum for that alpha (rank cases as premises), residuals = W y - W Phi(alpha) c, reported objective = 1/2||residuals||^2, and objective <= objective at the initial guess (solver proof over the whole path condition with squared norms abstracted); reported evaluations <= patience*(P+1) and model evaluations during fit <= patience*(P+1)+1 (counted on the path). Coherence after arbitrary update histories (A->B->A, rejected updates) is C01/C02/C10 on the core scenario.",
             note="The symfit clauses hold per explored path (a handful per tier, varied through budget, shape, weights and default values; decisions are not flipped), one basis function inside the loop, over the reals, divisors assumed non-zero in this scenario; equalities are proved on terms cut at generalisation points (sound for unsat; a sat over the abstraction is never reported, the obligation is then listed as undischarged). Outside: more basis functions inside the loop, longer budgets, IEEE effects. Native runs (supplementary) check the same facts on f64 fits incl. all 13 termination reasons."),
 "C08": dict(tech="Kani/CBMC over all IEEE-754 bit patterns with an SVD contract stub + symbolic execution of the MIR for integer panics + symbolic execution on a symbolic scalar for degenerate shapes", engines=[K, M, R],
             text="For ALL f64 bit patterns of a 2x2 basis matrix and of the weights, build() never hands a non-finite matrix to the SVD (whose documented failure modes are a panic for M>=2 and non-termination for M>=3) and returns a problem without residuals instead; no overflow/index/unwrap panic is reachable in try_calculate, fit, fit_with_statistics, build for any 64-bit sizes (MIR, both overflow profiles); every p outside (0,1) is the only documented panic. Thorough: nothing downstream of an arbitrary SVD result panics (2x2x1, all f64). Degenerate shapes (N < M, N = M, N = 1; vector/matrix, sequential/parallel, update histories) run through build/set_params/residuals/jacobian on the symbolic scalar: no panic on the explored paths for all values.",
             note="NOT decided: termination and panic-freedom inside nalgebra's SVD/inverse for finite input and inside the LM loop (its bound patience*(n+1) is read, not proved); shapes beyond 2x2 under Kani. Supplementary native grids (watchdog): NaN/inf/extremes at every input position on 3x2 and 5x3; shapes N=1..5 x P=0..3 x all four flavours x weights through build/jacobian/fit/fit_with_statistics/band."),
 "C11": dict(tech="symbolic execution of both flavours on a symbolic scalar inside rayon pools + SMT; MIR comparison of the two impls", engines=[R, M, K],
             text="Problems built by the parallel constructors report, at construction and after an update, residuals/coefficients/Jacobian that are proved equal (terms, all values) to the sequential problem's and to the specification, inside rayon pools of 1, 2, 3, 4, 16 threads, driven from outside the pool and from inside a worker of a dedicated pool (rayon splits the two differently: only the latter puts several columns into one job on small pools); complete fits through the real optimizer (sequential vs parallel constructor, vector and matrix API): same Ok/Err, termination, evaluation and model-call counts, and alpha-hat, coefficients, residuals, objective equal as terms, and the parallel result proved against the specification of its returned state (per column: optimal coefficient, residual block, objective = 1/2||r||^2); a failing derivative gives None in both; into_sequential preserves every field (Kani) and the MIR bodies of the two LeastSquaresProblem impls (set_params, params, residuals, all closures incl. the Jacobian column closure) are identical modulo the const generic.",
             note=REAL + "; the schedule quantifier is NOT enumerated (rayon cannot be driven symbolically, Kani has no threads): schedule independence rests on each column being written by one pure closure (identical closure MIR) plus identical terms under the schedules that occurred (thread counts and both ways of entering the pool are varied; interleavings are not enumerated)"),
 "C06": dict(tech="relational symbolic execution (two real problems in one term arena) + SMT", engines=[R, K],
             text="Weighted problem vs. pre-scaled unweighted problem: both hand the same matrix to the SVD and report identical coefficients, residuals, Jacobian; reduced chi^2, weighted residuals and covariance of the statistics coincide; weights(1..1) == no weights; a zero weight removes the sample (real SVD, M=1).", note=REAL + "; 'along the whole fit' follows because LM only sees residuals()/jacobian(); the LM iteration itself is not executed symbolically"),
 "C07": dict(tech="relational symbolic execution + SMT", engines=[R, K],
             text="S-column problem vs. S single-column problems (vector API): coefficient columns, residual blocks, Jacobian blocks identical; column permutation permutes them; dependent columns scale; 1-column MRHS == vector API, also for complete fits through the real optimizer (same outcome, counts, alpha-hat, coefficients, residuals, objective as terms; the matrix-API result proved against the specification of its returned state).", note=REAL + "; not decided: the fitted alpha under a permutation of several columns (equal only up to the optimizer's accuracy)"),
 "C09": dict(tech="symbolic execution with scripted model faults + SMT; facts per path", engines=[R, K, M],
             text="After a rejected set_params or a failing eval the problem exposes no residuals/coefficients/Jacobian; a failing derivative gives no Jacobian; after recovery the state equals a fresh problem's (terms proved equal). Through the real fit() on the symbolic scalar (symfit) with a model failure at call index k of the fit: Err, presence of residuals and coefficients consistent, whatever is present proved correct for the reported parameters. MIR: every failure path of fit/fit_with_statistics ends in Err carrying the problem; expect/unwrap panic paths are reported when the native sweep over every call index reproduces them.", note=REAL + "; fault positions: model.set_params, eval, each eval_partial_deriv, in build and in later updates; the LM loop's reaction (TerminationReason::User) is covered by Engine K (fabricated states) and by symfit (k in {0,1,2,4,7} quick, 0..13 thorough); supplementary native sweep: a failure at EVERY model call index of complete fits from several starting points"),
 "C10": dict(tech="symbolic execution of update histories + SMT; poisoning allocator", engines=[R, K],
             text="After two-step histories (incl. a rejected / failing update in between, and structure that is present at the first parameters only: an identically vanishing derivative column) every reported element is proved equal to the fresh problem's; repeated queries return identical terms; every element read back is a computed term (fresh heap memory is poisoned with 0xA5 so an un-overwritten element is an invalid term id).", note=REAL + "; heap quantifier: poison pattern instead of all heap contents"),
 "C12": dict(tech="symbolic execution of try_calculate + SMT; concrete shape grid for the guard", engines=[R, M],
             text="weighted_residuals == W y - W Phi c, reduced_chi2*(N-M-P) == ||r||^2, standard error^2 == chi2 for all values; N<=M+P gives Err(Underdetermined) without panic in the overflow-checked profile; model errors give Err.", note=REAL + "; N,M,P on a concrete grid in Engine R; Engine M decides the guard over symbolic 64-bit counts on both MIR dumps (overflow checks on and off)"),
 "C13": dict(tech="symbolic execution of try_calculate + SMT (fraction-free)", engines=[R, K],
             text="Cov*(H^T H) == sigma^2 I with H = W[Phi | D_k c] (ordering linear-then-nonlinear is implied), Cov symmetric, variance accessors == diagonal segments, corr_ij*sqrt(C_ii C_jj) == C_ij, for all values on the det != 0 path, (M+P) <= 4.", note=REAL + "; non-negativity of the diagonal and |corr| <= 1 are consequences not separately encoded"),
 "C14": dict(tech="symbolic execution of try_calculate + SMT", engines=[R, K],
             text="unscaled band sigma_i^2 == j_i^T Cov j_i with j_i a row of the UN-weighted [Phi | D_k c] for all values.", note=REAL + "; the data flow radius_i = t((1+p)/2, dof)*sigma_i is Engine K's part (quantile function stubbed by a recording oracle; all f64 p, all f32 p; p outside (0,1) panics -- a satisfied 'returned normally' cover is a counterexample and is replayed natively on 0, -0, 1, 1+eps, negatives, NaN, +-inf); the Student-t quantile itself (distrs crate) is trusted"),
 "C15": dict(tech="real builder executed on symbolic scalars; EUF obligations for accepted models; bounded enumeration of call sequences for acceptance", engines=[R],
             text="REDUCED SCOPE: acceptance is decided by hash sets over concrete strings, which no available symbolic engine carries (measured). A reference predicate written from the property statement classifies builder call sequences; ~50 hand-written sequences (every error kind, sticky errors, any order of x/initial-guess) and a systematic enumeration (every sequence of 1..3 functions over ordered subsets of 2..3 model parameters plus single-defect mutants: 229 quick / 1281 thorough) are run through the real builder: accepted iff valid, error kind among the defects present; accepted models are then decided symbolically as in C16.", note="acceptance part is an enumeration, not a solver verdict; names/arity clauses outside the enumerated sequences are not decided"),
 "C16": dict(tech="symbolic execution with uninterpreted basis functions + SMT (EUF)", engines=[R, K],
             text="For every enumerated program (all ordered subsets up to arity 3 of up to 3 (quick) / 4 (thorough) model parameters, every derivative order, invariant functions at rotating positions; per arity 4..10: rotation, reversal, inner permutations with fixed endpoints, adjacent swaps, seeded random permutations, strict subsets with gaps of a larger list) and ALL parameter values and ALL basis functions: eval column j == f_j(x, params by name), derivative column == the supplied derivative or exactly 0, params round-trip.", note="programs enumerated (exhaustive within the stated bound), values and functions universally quantified; parametric in the scalar type"),
 "C17": dict(tech="symbolic execution with uninterpreted basis functions + SMT (EUF); facts per program", engines=[R, K],
             text="Wrong output lengths (N-1, N+1, 0, exactly 1, 2N; N = 2, 3, 4) at function / invariant / derivative positions, a derivative index >= P and wrong parameter counts each give an Err (which variant/payload is noted, not demanded) and never a panic or a short/long matrix; a rejected set_params leaves params and all evaluations (terms) unchanged; accepted calls return N x M.", note="programs enumerated; values universally quantified"),
 "C18": dict(tech="symbolic execution of the real builder + SMT", engines=[R, M],
             text="After build(): params() == the model's parameters, residuals/coefficients present and correct, stored threshold == |eps| (or machine epsilon), for every order and repetition of the builder calls and all four constructors, all values.", note=REAL + "; the accept/reject decision of build() over SYMBOLIC 64-bit sizes (observations present, rows, columns, x length, weights length) is Engine M's part: Ok exactly when no requirement is violated, an Err names a requirement that is violated (priority among several left open); each MIR path replayed natively"),
}
NA = {
 "C05": "convergence of the Levenberg-Marquardt/VarPro iteration to a minimiser is a limit statement about an iterative floating-point search over transcendental model families: out of reach of bit-blasting (iterations x float width) and of exact real arithmetic alike; its local ingredients are decided under C01/C03",
 "C19": "a statement about relative frequencies over noise realisations: there is no single execution whose assertion a solver could decide; its algebraic ingredients are decided under C12-C14",
}
PENDING = {}


def main():
    extra = {}
    p = os.path.join(HERE, "tools", "manifest_extra.json")
    if os.path.exists(p):
        extra = json.load(open(p))
    checks = []
    for pid in sorted(CHECKS):
        c = CHECKS[pid]
        checks.append({
            "property_id": pid,
            "quick_cmd": f"./check {pid} quick",
            "thorough_cmd": f"./check {pid} thorough",
            "evidence_file": f"/verif/evidence/{pid}.json",
            "replay_cmd_template": "./check replay {path}",
            "engine": " + ".join(e.split(":")[0] for e in c["engines"]),
            "level_claimed": {"category": "model_checking", "text": c["text"], "design_ref": f"DESIGN.md section 4 ({pid})"},
            "level_note": c["note"],
            "technique": c["tech"],
        })
    na = [{"property_id": k, "reason": v} for k, v in sorted({**NA, **{k: v for k, v in PENDING.items() if k not in CHECKS}}.items())]
    man = {
        "version": 1,
        "setup_cmd": "./check setup",
        "hooks": {
            "guard": "cfg(verif_sym) / cfg(kani): present only in the scratch overlay copy of /repo that every check creates; /repo itself carries no hooks",
            "enable": "each check rsyncs /repo's working tree to /var/tmp/verif-scratch/run-*/repo, appends `#[cfg(verif_sym)] #[path=\"/verif/engine_r/access/<m>.rs\"] pub mod verif_access;` to module files and builds with RUSTFLAGS=--cfg verif_sym (Kani: cfg(kani)); nalgebra is patched (add-only SVD hook) in a generated copy",
            "baseline_off_cmd": "cd /repo && cargo test --workspace --no-fail-fast --offline",
            "source_commits": [],
            "add_only": True,
        },
        "engines": [
            {"name": "R", "path": "/verif/engine_r", "serves_properties": sorted(k for k, c in CHECKS.items() if R in c["engines"]), "kind_free_text": R},
            {"name": "K", "path": "/verif/engine_k", "serves_properties": sorted(k for k, c in CHECKS.items() if K in c["engines"]), "kind_free_text": K},
            {"name": "N", "path": "/verif/engine_r/harness/src/scen_native.rs", "serves_properties": ["C04", "C08", "C09", "C12", "C18"], "kind_free_text": N},
            {"name": "M", "path": "/verif/engine_m", "serves_properties": sorted(k for k, c in CHECKS.items() if M in c["engines"]), "kind_free_text": M},
        ],
        "checks": checks,
        "not_applicable": na,
        "notes": "Genuine defects found and repaired in /repo (fix: commits 69fc015, f8c3afb, d50c35b) are recorded in /verif/known_findings.json. Scratch space: /var/tmp/verif-scratch (override with VERIF_SCRATCH).",
    }
    json.dump(man, open(os.path.join(HERE, "MANIFEST.json"), "w"), indent=1)
    print("wrote MANIFEST.json with", len(checks), "checks;", len(na), "not applicable")


if __name__ == "__main__":
    main()
