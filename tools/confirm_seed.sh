#!/bin/bash
# confirm a seeded change: usage confirm_seed.sh <worktree> <outdir> [features]
# 1. existing tests pass with the change  2. demo fails with the change  3. demo passes without
wt=$1; out=$2; feat=${3:-}
cd $wt || exit 2
export CARGO_TARGET_DIR=/var/tmp/verif-scratch/target-seed
git checkout -q -- . ; git clean -fdq tests/ 2>/dev/null
git apply $out/patch.diff || { echo "PATCH DOES NOT APPLY"; exit 2; }
echo "== existing tests with the change"
cargo test --workspace --offline $feat 2>&1 | grep -E "^test result|FAILED|panicked|error(\[|:)" | head -12
cp $out/demo.rs tests/demo_seed.rs
echo "== demo with the change (expected: FAIL)"
cargo test --offline $feat --test demo_seed 2>&1 | grep -E "^test result|^test .* (ok|FAILED)|error(\[|:)" | head -12
git checkout -q -- src
echo "== demo without the change (expected: ok)"
cargo test --offline $feat --test demo_seed 2>&1 | grep -E "^test result|^test .* (ok|FAILED)|error(\[|:)" | head -12
rm -f tests/demo_seed.rs
git apply $out/patch.diff
echo "== done (change re-applied in $wt)"
