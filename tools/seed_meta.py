#!/usr/bin/env python3
"""Writes /verif/seeded/<id>/meta.json from the evaluation logs (/tmp/seedeval_<id>.log) and the agent's notes."""
import json, os, re, sys
HERE = os.path.dirname(os.path.dirname(os.path.abspath(__file__)))
HISTORY = {
    "C01-a": "MISSED by the checks as first built (the planted-SVD stub ignored the arguments of the decomposition). Strengthened: the hook now receives the SVD's convergence tolerance / iteration bound and the obligation SVD.tolerance requires a constant <= 1e-9; native confirmation through the failing C01 obligations.",
    "C13-a": "first run: the solver refuted C13.correlation_normalised but the native replay could not confirm it (values ~1e-8 below the replay tolerance) -> exit 2, no VIOLATION. Strengthened: obligation C13.correlation_unit_diagonal (corr_aa = 1 given C_aa > 0, O(1) values) and per-obligation assumptions.",
    "C14-a": "would have been MISSED by the data-flow harness as first built (p from a 4-value grid, all < 0.9999). Strengthened before the run: harness k_band_quantile_argument_all_p checks the quantile argument for every f64 p in (0,1).",
    "C02-b": "MISSED on the first run (exit 0): the builder-call-order configurations were only part of C18's check. Strengthened: C02 and C06 now also run the `order` configurations (weights before observations, repeated setters).",
    "C16-b": "MISSED on the first run (exit 0): arities >= 4 were only exercised by one rotation each. Strengthened: per arity 4..10 rotation, reversal, endpoints-fixed inner permutations, adjacent swaps, seeded random permutations, and strict subsets with gaps of a larger parameter list.",
    "C14-b": "the change removes the private field `degrees_of_freedom`, which the overlay access module and the Kani harness name: as first built the harness would not have compiled (exit 2, no verdict). Strengthened before the run: accessors of private fields are optional (fallback build without them) and the band radius is checked natively through the public API against t((1+p)/2; N-M-P)*sqrt(j^T Cov j).",
    "C13-b": "the change routes the inverse through an SVD, which the symbolic engine cannot carry without a planted factorisation (now reported as `unsupported`, no verdict for the symbolic part). Caught by the native validation at extreme weight scales (10^-9, 10^6) with the sigma^2-normalised identity, added before the run.",
    "C04-b": "caught by the A->B->A update history (added to the `hist` configurations before the run) and, independently, by the native scenario fwsmap that existed before.",
    "C15-b": "would have been MISSED by the hand-written list of call sequences. Strengthened before the run: a reference predicate written from the property statement and a systematic enumeration of function sequences over 2..3 model parameters (229 quick / 1281 thorough programs).",
    "C11-b": "needs S right-hand sides not divisible by ceil(S/threads): S=3 with 2 threads and S=5 with 3 threads were added to the relpar configurations before the run.",
    "C18-b": "Engine M: `Matrix::len` got an exact summary (rows*cols) before the run so that the solver model replays natively; the native buildcase grid also covers it.",
    "C11-c": "round 3 (blind, free choice of property): caught on the first run by Engine M's comparison of the two impls' MIR only; Engine R missed it because no configuration had P >= 2*threads with a remainder. Strengthened: relpar configuration p=5 on a 2-thread pool (and p=3..6 in thorough); R now reports it as well.",
    "C02-c": "round 3 (blind): caught on the first run (truncated paths of the core scenario).",
    "C04-c": "round 3 (blind): caught on the first run (C02 residual identity on truncated paths; native fwsmap).",
    "C16-c": "round 3 (blind): caught on the first run (same class as C16-b, after the routing programs had been broadened).",
    "C06-c": "round 3 (blind): caught on the first run.",
    "C13-c": "round 3 (blind): caught on the first run by the native validation at extreme weight scales (same class as C13-b).",
    "C15-d": "round 4 (blind): MISSED (exit 0): wrong-length initial guesses were only tried after independent_variable(). Strengthened: x / initial-guess calls (right and wrong length) are inserted directly after functions in the systematic enumeration.",
    "C01-d": "round 4 (blind): MISSED (exit 0) -- and it exposed a flaw of the specification side: the closed-form oracle took its set of retained singular values from the shadow values, i.e. it inherited the code's rank decision on that path. Corrected: every rank case (all 2^k keep-sets) is emitted with its premise sigma_j > eps / <= eps as an explicit assumption of the obligation; cases contradicting the path condition are vacuous, all others must be proved (also for normal equations, Kaufman form, orthogonality under the full-rank premise).",
    "C14-d": "round 4: summary read before the run. First evaluation: five Kani harnesses reported failures -- but four of them were SPURIOUS for this tree (f64 harnesses, where the property holds): the change rewrites the loop as `.map`, and CBMC then reports memory-model failures (`dereference failure: pointer NULL/invalid`, `Kani does not support reasoning about pointer to unallocated memory`) inside nalgebra. That was a false-alarm mechanism of the checks: runs containing such failures are now UNDETERMINED as a whole (never a violation). The defect itself (level formed in f32) is now caught by the native f32 band check with probabilities close to 1 (0.99999, 0.999999).",
    "C12-d": "round 4: the change alters the signature of the crate-private try_calculate, which the overlay access module calls: as built before, the harness would not have compiled (exit 2). Strengthened before the run: that accessor is optional too, and the native scenario statsfit checks the C12 identities and the N > M+P rule through the public API on rank-deficient (truncated) problems.",
    "C11-d2": "round 4 (blind): reported only by Engine M's MIR comparison of the two impls; Engine R had no configuration with >= 8 right-hand sides. Strengthened: relpar configuration with 9 right-hand sides on a 4-thread pool; R reports it as well (schedule-dependent, observed).",
    "C11-d": "round 4 (blind): caught on the first run (R: C03 obligations of the parallel flavour; M: MIR comparison).",
    "C03-d": "round 4 (blind): caught on the first run.", "C06-d": "round 4 (blind): caught on the first run (truncated paths of the relational scenario).",
    "C02-d": "round 4 (blind): caught on the first run.", "C16-d": "round 4 (blind): caught on the first run.", "C13-d": "round 4 (blind): caught on the first run.",
    "C03-d2": "round 4: run after the rank-case premises had been made explicit (C01-d); caught.",
    "C07-e": "round 5 (blind): caught on the first run.",
    "C09-e": "round 5 (blind): NO VERDICT on the first run (exit 2): Engine M saw the deviation in the MIR (a path that continues after `expect`, which it havocked) but the native replay scenario did not reproduce it, and the native fault grid injected failures at call indices 0..25 only while the trigger sits at the optimizer's final re-application (call 132 of 138 in the grid's model). Strengthened: `expect`/`unwrap` are summarised with their panic path; the native grid (`faultsweep`) counts the calls of the fault-free run and injects a failure at EVERY index, from several starting points; a panic path of the MIR is reported when that sweep reproduces a panic.",
    "C10-e": "round 5 (blind): MISSED (exit 0): the symbolic derivative matrices never had an identically vanishing column, so the sparsity pattern detected at the first Jacobian was always 'all columns'. Strengthened: configurations `zero_d` (a derivative column that is exactly zero at the first parameters only) in the update-history tier.",
    "C17-e": "round 5 (blind): caught on the first run (evaluations after a rejected set_params).",
    "C18-e": "round 5 (blind): MISSED (exit 0): `Float::is_normal` was constant `true` on the symbolic scalar and no configuration used an exactly-zero threshold. Strengthened: is_normal is the recorded decision `!= 0` (over the reals), and configurations with epsilon(0) were added. Subnormal thresholds remain outside a real-arithmetic engine (stated).",
    "C12-e": "round 5 (blind): caught on the first run (panic for N < M+P).",
    "C04-e": "round 5 (blind): MISSED (exit 0): nothing counted model evaluations against the caller's budget. Strengthened: scenario `symfit` (the real fit() with the real Levenberg-Marquardt driver on the symbolic scalar) counts model evaluations per explored path against patience*(P+1) and decides the remaining clauses of C04 (returned state coherent, objective = 1/2||r||^2, objective <= objective at the initial guess) with the solver.",
    "C13-e": "round 5 (blind): caught on the first run (native validation at extreme weight scales).",
    "C15-e": "round 5 (blind): caught on the first run.",
    "C08-e": "round 5 (blind): MISSED (exit 0): no check exercised fewer observations than basis functions outside the thorough tier. Strengthened: C08 now runs the symbolic `core` scenario on degenerate shapes (N < M, N = M, N = 1) and a native grid `shapes` (N = 1..5, P = 0..3, all four flavours, weights, statistics).",
    "C01-f": "round 6 (blind): caught on the first run (the rank-case premises: sigma = eps belongs to the discarded case).",
    "C02-f": "round 6 (blind): caught on the first run.", "C03-f": "round 6 (blind): caught on the first run (the solver found inputs on the far side of the recorded numeric guard).",
    "C06-f": "round 6 (blind): caught on the first run.", "C16-f": "round 6 (blind): caught on the first run.", "C13-f": "round 6 (blind): caught on the first run (native validation at extreme weight scales).",
    "C11-f": "round 6 (blind): MISSED (exit 0; Engine M listed the difference of the two impls as inconclusive). The defect is schedule dependent: it needs one rayon job to handle several Jacobian columns. Calls injected from outside the pool (as the harness made them) are split further by rayon than calls that start on a worker, so every column ran as its own job. Strengthened: configurations `install=1` drive the parallel flavour from inside a worker of a dedicated pool (1..4 threads, 3..9 columns), for single updates (relpar) and complete fits (relfit).",
    "C14-f": "round 6 (blind): NO VERDICT (exit 2): Kani satisfied the cover 'returned normally for a probability outside (0,1)' -- a counterexample -- but the runner filed any unexpected cover status under 'vacuity witness not as expected'. Corrected: a satisfied MUST-NOT cover is treated like a failed assertion and replayed natively (scenario `bandpanic`: 0, -0, 1, 1+eps, negatives, NaN, +-inf must panic; values inside must not).",
    "C09-f": "round 6 (blind): NO VERDICT (exit 2): the Kani harness on the fault logic failed its assertion params() == the parameters just applied, but the native replay scenario (rejected update) does not exercise an evaluation failure. Strengthened: the failing-eval history of the symbolic `core` scenario proves params() == the parameters at the failure, and it is the second native replay of that harness.",
    "C04-f": "round 6 (blind): NO VERDICT (exit 2): Engine M saw that field `cached` of the returned problem is not the optimizer's final one on the Err path, but the native scenario only looked at the weighted data of an Err result. Strengthened: native `fitmap` and the symbolic `symfit`/`symfit2` require residuals and coefficients on the returned problem whenever the model never failed, Ok or Err.",
    "C02-g": "round 7 (blind): caught on the first run.", "C10-g": "round 7 (blind): caught on the first run (update history ending at a truncated state).", "C15-g": "round 7 (blind): caught on the first run (systematic call sequences with a repeated initial guess).",
    "C03-g": "round 7 (blind): NO RESULT: the check was killed after 45 minutes. The change rewrites the projected column as (x/||x||)*||x||; thousands of formerly syntactic equalities became hard for the solvers and each ran into the full 20 s race. Nothing was reported in that time (the defect itself needs the SQUARE of a norm to underflow/overflow, i.e. lies outside the real-arithmetic claim). Strengthened: wall-clock / exhausted-race budget per run (remaining queries are listed as undischarged), and a native metamorphic check `scalecore` (coefficients, residuals, Jacobian are homogeneous in the observations at scales 2^-540 .. 2^500).",
    "C07-g": "round 7 (blind): NO RESULT: the check was killed after 30 minutes. The change adds a comparison per Jacobian element; the path exploration then flips hundreds of decisions sequentially (5 s each). Strengthened: the exploration loop obeys the same wall-clock budget.",
    "C12-g": "round 7 (blind): MISSED (exit 0): needs weighted residuals that are EXACTLY zero (0/0 in a rescaling guard) -- an IEEE special case no configuration produced. Strengthened: native `statsfit` fits constant data with exp(a x) from a = 0 (termination ResidualsZero) and requires reduced chi^2 = 0 and standard error = 0.",
    "C17-g": "round 7 (blind): MISSED (exit 0): the wrong output lengths tried were N-1, N+1 and 0; a length of exactly 1 with N >= 3 samples at an invariant function was not among them. Strengthened: lengths 1 and 2N at every function / invariant / derivative position, N cycling through 2, 3, 4.",
    "C18-g": "round 7 (blind): NO VERDICT (exit 2): Engine M saw that the stored threshold no longer comes from Float::epsilon of the scalar type, but f64 runs cannot show a difference (the change only affects f32 models). Strengthened: the stored threshold is compared exactly in the native f32 runs of the core scenario as well.",
    "C04-a": "first evaluation design: Engine M alone reported it but its native replay scenario did not cover LostPatience; the native scenario fitmap now enumerates all 13 termination reasons.",
}
AFTER = {"C01-d": "/tmp/seb_C01-d_after.txt", "C15-d": "/tmp/seb_C15-d_after.txt", "C14-d": "/tmp/seb_C14-d_after.txt",
         "C18-e": "/tmp/seb_C18-e_after.txt", "C10-e": "/tmp/seb_C10-e_after.txt", "C08-e": "/tmp/seb_C08-e_after.txt", "C04-e": "/tmp/seb_C04-e_after.txt", "C09-e": "/tmp/seb_C09-e_after.txt",
         "C11-f": "/tmp/seb_C11-f_after.txt", "C14-f": "/tmp/seb_C14-f_after.txt", "C09-f": "/tmp/seb_C09-f_after.txt", "C04-f": "/tmp/seb_C04-f_after.txt",
         "C03-g": "/tmp/seb_C03-g_after.txt", "C07-g": "/tmp/seb_C07-g_after.txt", "C12-g": "/tmp/seb_C12-g_after.txt", "C17-g": "/tmp/seb_C17-g_after.txt", "C18-g": "/tmp/seb_C18-g_after.txt"}
SUMMARY = {
    "C07-e": ("shared Jacobian helper with a 'fast path' for S > M whose gemm has alpha and beta swapped", "strictly more right-hand sides than basis functions"),
    "C09-e": ("fit_with_statistics: `let Some(coefficients) = .. else return Err` replaced by `.expect(..)`", "a model failure exactly at the optimizer's final re-application of the accepted parameters"),
    "C10-e": ("sparsity pattern of the derivative matrices detected at the first jacobian() call and cached in a OnceLock", "a derivative column that is exactly zero at the parameters of the first jacobian() call"),
    "C17-e": ("a rejected set_params is remembered and eval()/eval_partial_deriv() return that error until a valid vector is set", "wrong-length set_params followed by an evaluation"),
    "C18-e": ("epsilon() keeps |eps| only if it is_normal(): zero and subnormal thresholds fall back to machine epsilon", "epsilon(0.0) and a singular value at or below machine epsilon"),
    "C12-e": ("(H^T H)^-1 via the QR factor, moved ahead of the under-determination check", "strictly N < M+P"),
    "C04-e": ("set_params evaluates the model twice per trial point (helper called for the SVD and again for the residuals)", "counting model evaluations against a small caller-supplied patience"),
    "C13-e": ("sigma set to 0 when the reduced chi^2 is below machine epsilon", "a good fit of small-scale data (reduced chi^2 <= eps)"),
    "C15-e": ("derivatives wrapped through a new helper that drops the arity check of derivative callables", "a correctly named partial_deriv whose callable has the wrong arity"),
    "C08-e": ("sequential jacobian() uses a scratch buffer sized M x S assuming U has M columns", "fewer observations than basis functions"),
    "C01-f": ("truncation with sigma < eps (strict) in a new helper: a singular value equal to the threshold is kept", "a singular value exactly equal to the configured threshold"),
    "C02-f": ("Weights::diagonal() returns Unit when all weights are identical", "uniform weights different from 1"),
    "C03-f": ("'twice is enough' re-projection flips the sign of a Jacobian column when its out-of-range part is relatively tiny", "out-of-range fraction of (dPhi/dalpha_k) C below sqrt(eps)"),
    "C06-f": ("explicit weights with all |w_i| = 1 collapse to Unit (camax/camin compare magnitudes)", "weights of magnitude one with at least one -1"),
    "C11-f": ("parallel jacobian: per-worker scratch via map_init, U^T D_k C accumulated instead of overwritten", "one rayon job handling >= 2 columns (few threads, work started inside the pool)"),
    "C14-f": ("probability check (0..1).contains(&p): the lower bound is included", "probability exactly 0 (or -0)"),
    "C16-f": ("function parameter list sorted alphabetically: derivatives receive their arguments in alphabetical order", "a function of >= 2 parameters declared out of alphabetical order"),
    "C13-f": ("machine-epsilon ridge added to the diagonal of H^T H before inversion", "entries of H^T H tiny in absolute terms"),
    "C09-f": ("after a failing evaluation the model is rolled back to its previous parameters", "an evaluation failure after the model accepted the parameters; params() inspected"),
    "C04-f": ("fit() clears the cache of the returned problem when the termination is not successful", "an unsuccessful termination of a model that evaluates fine (LostPatience)"),
    "C02-g": ("weights() stores |w| instead of the weights as supplied", "a strictly negative weight"),
    "C03-g": ("Jacobian column computed by projecting x/||x|| and rescaling by ||x||; the zero-norm branch returns x itself", "||W D_k C||^2 under- or overflowing (values below 1e-162 or above 1e154)"),
    "C07-g": ("Jacobian elements <= eps * max|D_k C| are zeroed, the maximum taken over ALL right-hand sides", "right-hand sides whose scales differ by more than 1/eps"),
    "C10-g": ("for a rank-deficient target the coefficients are computed as C_prev + solve(residual of C_prev): the null-space part of the previous coefficients leaks in", "an update to a truncated (rank-deficient) state after an earlier successful update"),
    "C12-g": ("reduced chi^2 recomputed through a rescaling guard when the sum of squares is below min_positive: an exactly zero sum gives 0/0", "weighted residuals that are exactly zero (perfect fit, ResidualsZero)"),
    "C15-g": ("length check of the initial guess moved into build(): a wrong-length guess is no longer sticky", "initial_parameters called twice, first with a wrong length"),
    "C17-g": ("invariant functions returning a single element are broadcast over the samples", "an invariant function whose output has length exactly 1 with >= 2 samples"),
    "C18-g": ("default threshold is the f64 constant f64::EPSILON cast to the scalar type", "an f32 model built without epsilon()"),
    "C15-d": ("initial_parameters() skips its length check when called directly after function()/partial_deriv()", "a wrong-length initial guess supplied right after a function"),
    "C02-d": ("residuals cached as Y_w - U(U^T Y_w) (third independent occurrence of this idea)", "a truncated singular value"),
    "C16-d": ("'skip the temporary Vec' fast path passing params[first..=last] (third independent occurrence)", "arity >= 4, endpoints fixed, middle shuffled"),
    "C13-d": ("pseudo_inverse(eps) instead of try_inverse (third independent occurrence)", "H small in absolute terms"),
    "C03-d": ("parallel Jacobian applies the weights after the projection (same mechanism as C11-a)", "parallel flavour and non-uniform weights"),
    "C06-d": ("truncation threshold scaled by max|w| for weighted problems", "non-unit weights and a singular value between eps and eps*max|w|"),
    "C01-d": ("truncation threshold made relative: eps * sigma_max", "sigma_max != 1 and a singular value between eps and eps*sigma_max"),
    "C14-d": ("quantile level (1+p)/2 computed in the model's scalar type before widening to f64", "f32 models with p close to 1"),
    "C11-d": ("parallel Jacobian projects with only the leading rank(eps*sigma_max) columns of U", "parallel flavour, user epsilon, nearly collinear basis functions"),
    "C12-d": ("degrees of freedom use the numerical rank instead of M (try_calculate gets an extra argument)", "a singular value at or below the SVD epsilon at the final parameters"),
    "C11-d2": ("parallel set_params solves >= 8 right-hand sides column-wise through par_bridge (order not preserved)", ">= 8 right-hand sides and >= 2 worker threads"),
    "C03-d2": ("Jacobian projector keeps only columns of U with sigma > eps*sigma_max", "user epsilon with eps < sigma_min <= eps*sigma_max"),
    "C01-a": ("try_svd(.., eps = user threshold, max_niter) instead of svd(): the truncation threshold becomes the SVD's convergence tolerance", "a user epsilon well above machine epsilon"),
    "C01-b": ("hand-rolled truncated solve without the `else row = 0`: discarded singular directions pass u^T y through", "a singular value at or below the threshold (rank-deficient / large user epsilon)"),
    "C02-a": ("MRHS best_fit computed as Y_w - residuals (weighted) instead of Phi*C", "multiple right-hand sides and non-unit weights"),
    "C02-b": ("vector-API observations() multiplies by the weights held at that moment; build() weights again", "weights() called before observations() with non-unit weights"),
    "C02-c": ("residuals cached as Y_w - U(U^T Y_w) instead of Y_w - Phi_w C", "a truncated singular value (rank-deficient basis or large epsilon)"),
    "C03-a": ("Jacobian weights applied after the contraction with row = idx / ncols", "non-unit weights and >= 2 right-hand sides"),
    "C03-b": ("MRHS Jacobian helper accumulates with ger(beta = 0): only the last non-zero derivative column survives", "mrhs flavour and a parameter shared by >= 2 basis functions"),
    "C04-a": ("was_successful re-implemented as a deny-list that forgets LostPatience", "the optimizer exhausting its evaluation budget"),
    "C04-b": ("'recall previous' cache: re-applying the previous parameters restores the cache without telling the model", "A -> B -> A parameter history (termination right after a rejected trial step)"),
    "C04-c": ("residuals cached as Y_w - U(U^T Y_w): objective no longer belongs to the exposed coefficients", "a truncated singular value"),
    "C06-a": ("statistics count only non-zero weights as observations", "an exactly-zero weight and fit_with_statistics"),
    "C06-b": ("Jacobian weights applied through a zip that stops after the first column", "mrhs with >= 2 columns and non-unit weights"),
    "C06-c": ("under-determination check and dof use the number of non-zero weights", "an exactly-zero weight"),
    "C07-a": ("Jacobian blocks written with `offset = block_len` instead of `+=`", "three or more right-hand sides"),
    "C07-b": ("truncation zeroes `ut_y[j]` by linear index: only the first right-hand side is truncated", ">= 2 right-hand sides and a truncated singular value"),
    "C08-a": ("finiteness filter applied to Phi before the weights", "non-finite (or overflowing) weights and >= 2 basis functions"),
    "C08-b": ("finiteness test replaced by is_finite(camax()): a NaN followed by another entry is forgotten", "a NaN anywhere but the last entry"),
    "C09-a": ("set_params returns early on a failing eval WITHOUT clearing the cache", "an eval failure after an earlier successful update"),
    "C09-b": ("Jacobian column results combined with Result::or instead of and", ">= 2 nonlinear parameters, some but not all derivatives failing"),
    "C10-a": ("Jacobian column skipped (left uninitialised) when W D_k C is exactly zero", "a parameter whose weighted derivative times the coefficients vanishes"),
    "C10-b": ("set_params returns early when the new parameters equal the model's, even if the cache is empty", "a rejected update followed by re-applying the previous parameters"),
    "C11-a": ("parallel Jacobian applies the weights after the projection", "parallel flavour and non-uniform weights"),
    "C11-b": ("parallel Jacobian splits right-hand sides with par_chunks_exact_mut: the trailing block is skipped", "S not divisible by ceil(S / threads)"),
    "C11-c": ("parallel Jacobian hands out column blocks with par_chunks_exact_mut: trailing columns skipped", "P >= 2*threads with a remainder (e.g. 5 parameters, 2 threads)"),
    "C12-a": ("dof via checked_sub(..).ok_or(Underdetermined): the case N = M + P slips through", "exactly as many samples as parameters"),
    "C12-b": ("fit_with_statistics lost the success check after a refactoring", "a failed fit that still has coefficients (e.g. LostPatience)"),
    "C13-a": ("correlation normalisation floored: sqrt(max(C_ii C_jj, eps))", "variances with product below machine epsilon"),
    "C13-b": ("covariance through pseudo_inverse(eps) (absolute cut-off) instead of try_inverse", "H small in absolute terms (tiny amplitudes / weights)"),
    "C13-c": ("same mechanism as C13-b, chosen independently", "H small in absolute terms"),
    "C14-a": ("one-sided quantile -ppf(1-p) for p >= 0.9999", "probabilities very close to 1"),
    "C14-b": ("dof handed to the quantile is N - M (field `degrees_of_freedom` removed)", "few degrees of freedom"),
    "C15-a": ("independent_variable() no longer finalises the pending function", "function -> x -> partial_deriv call order"),
    "C15-b": ("unused-parameter check skipped when the (un-sorted, dedup'ed) key count reaches the parameter count", ">= 3 parameters, one unused, another referenced by two non-adjacent functions"),
    "C16-a": ("arity-9 macro instantiation swaps argument indices 5 and 6", "a 9-parameter function not symmetric in those arguments"),
    "C16-b": ("'contiguous block' fast path passes params[first..=last] in model order (checks first/last only)", "arity >= 3 with endpoints n-1 apart and inner parameters permuted / outside"),
    "C16-c": ("same mechanism as C16-b, chosen independently", "arity >= 3, non-ascending run"),
    "C17-a": ("derivative index guard `>` instead of `>=`", "index exactly equal to the parameter count"),
    "C17-b": ("derivative column filled through a zip: a too long output is silently truncated", "a derivative returning more elements than samples"),
    "C18-a": ("emptiness check uses the row count only", "observation matrix with rows but zero columns"),
    "C18-b": ("weights length compared with Y.len() (rows x columns)", "mrhs with >= 2 columns and weights"),
}
rows = []
for name in sorted(os.listdir(os.path.join(HERE, "seeded"))):
    d = os.path.join(HERE, "seeded", name)
    log = f"/tmp/seedeval_{name}.log"
    if not os.path.isdir(d):
        continue
    meta_p = os.path.join(d, "meta.json")
    meta = json.load(open(meta_p)) if os.path.exists(meta_p) else {}
    if os.path.exists(log):
        txt = open(log).read()
        parts = re.split(r"^== ", txt, flags=re.M)
        sect = {p.split("\n")[0]: p for p in parts}
        def results(key):
            s = next((v for k, v in sect.items() if k.startswith(key)), "")
            return re.findall(r"^test result: (\w+)\. (\d+) passed; (\d+) failed", s, re.M)
        existing = results("existing tests with the change")
        demo_with = results("demo with the change")
        demo_without = results("demo without the change")
        viol = re.findall(r"^VIOLATION property=(\S+) replay=(\S+)\n  detail: (.*)$", txt, re.M)
        summ = re.findall(r"^SUMMARY .*$", txt, re.M)
        rc = re.findall(r"^check rc=(\d+)", txt, re.M)
        tool = re.findall(r"^TOOL-FAILURE.*$", txt, re.M)
        meta.update({
            "id": name,
            "property": name.split("-")[0],
            "existing_tests_pass_with_change": bool(existing) and all(r[0] == "ok" for r in existing) and sum(int(r[1]) for r in existing) >= 75,
            "existing_tests_passed": sum(int(r[1]) for r in existing),
            "demo_fails_with_change": any(r[0] == "FAILED" for r in demo_with),
            "demo_passes_without_change": bool(demo_without) and all(r[0] == "ok" for r in demo_without),
            "check_exit_code": int(rc[-1]) if rc else None,
            "detected": bool(viol) and rc and rc[-1] == "1",
            "violations_reported": [{"detail": v[2][:300]} for v in viol[:6]],
            "check_summary": summ[-1] if summ else None,
            "tool_failures": [t[:300] for t in tool[:3]],
            "ran": ["tools/confirm_seed.sh <worktree> <agent output>  (cargo test --workspace --offline with the change; demo with / without the change)",
                    f"VERIF_REPO=<worktree> ./check {name.split('-')[0]} quick"],
        })
    if name in SUMMARY:
        meta["what_it_does"], meta["needs_to_manifest"] = SUMMARY[name]
    if name in AFTER and os.path.exists(AFTER[name]):
        t = open(AFTER[name]).read()
        meta["detected_on_first_run"] = meta.get("detected")
        v = re.findall(r"^VIOLATION property=(\S+) replay=(\S+)\n  detail: (.*)$", t, re.M)
        meta["detected_after_strengthening"] = bool(v)
        meta["violations_after_strengthening"] = [{"detail": x[2][:300]} for x in v[:4]]
    if name in HISTORY:
        meta["history"] = HISTORY[name]
    notes = os.path.join(d, "notes.md")
    if os.path.exists(notes) and "needs_to_manifest" not in meta:
        meta["notes_from_author"] = open(notes).read()[:2500]
    json.dump(meta, open(meta_p, "w"), indent=1)
    rows.append((name, meta.get("detected"), meta.get("check_exit_code"), (meta.get("violations_reported") or [{}])[0].get("detail", "")[:110]))
for r in rows:
    print(r)
