#!/usr/bin/env python3
"""Prints the markdown table of seeded changes (DESIGN.md section 9.6) from seeded/*/meta.json."""
import json, os, re
HERE = os.path.dirname(os.path.dirname(os.path.abspath(__file__)))
print("| id | property | what the change does / needs to manifest | caught by (first violation reported) | note |")
print("|---|---|---|---|---|")
for name in sorted(os.listdir(os.path.join(HERE, "seeded"))):
    p = os.path.join(HERE, "seeded", name, "meta.json")
    if not os.path.exists(p):
        continue
    m = json.load(open(p))
    first = (m.get("what_it_does", "") + " -- needs: " + m.get("needs_to_manifest", "")).replace("|", "/")
    viol = (m.get("violations_reported") or [{}])[0].get("detail", "")
    viol = re.sub(r"\|", "/", viol)[:150]
    det = "yes" if m.get("detected") else ("first run: NO (exit %s)%s" % (m.get("check_exit_code"), "; after strengthening: yes" if m.get("detected_after_strengthening") else ""))
    if not m.get("detected") and m.get("violations_after_strengthening"):
        viol = m["violations_after_strengthening"][0]["detail"].replace("|", "/")[:150]
    hist = re.sub(r"\|", "/", m.get("history", ""))[:260]
    print(f"| {name} | {m.get('property')} | {first} | {det}: {viol} | {hist} |")
