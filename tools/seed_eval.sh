#!/bin/bash
# usage: seed_eval.sh <name> <property> <worktree> <outdir> [engines] [features]
name=$1; prop=$2; wt=$3; out=$4; eng=${5:-RMN}; feat=${6:-}
log=/tmp/seedeval_$name.log
/verif/tools/confirm_seed.sh $wt $out "$feat" > $log 2>&1
echo "---- check $prop against $wt (engines $eng)" >> $log
cd /verif
VERIF_REPO=$wt VERIF_ENGINES=$eng ./check $prop quick >> $log 2>&1
rc=$?
echo "check rc=$rc" >> $log
mkdir -p /verif/seeded/$name
cp $out/patch.diff /verif/seeded/$name/patch.diff
cp $out/demo.rs /verif/seeded/$name/demo.rs
cp $out/notes.md /verif/seeded/$name/notes.md 2>/dev/null
grep -E "^== |^test result|^test .*FAILED|^test .* ok|VIOLATION|SUMMARY|TOOL-FAILURE|check rc|PATCH" $log | cut -c1-220
