#!/bin/bash
# run every registered quick (or thorough) check once and print a summary line per property
tier=${1:-quick}
cd /verif
for p in $(python3 -c "import json; print(' '.join(c['property_id'] for c in json.load(open('MANIFEST.json'))['checks']))"); do
  s=$(cut -d' ' -f1 /proc/uptime)
  ./check $p $tier > /tmp/check_$p.log 2>&1
  rc=$?
  e=$(cut -d' ' -f1 /proc/uptime)
  echo "$p rc=$rc $(python3 -c "print(round($e-$s))")s $(grep -E '^SUMMARY' /tmp/check_$p.log | cut -c1-160)"
done
