#!/bin/bash
# usage: seed_batch.sh <round prefix, e.g. /tmp/seed4-> <suffix letter> <i> [<i> ...]
# evaluates finished seeds blindly: property id is read from the first line of notes.md
pre=$1; suf=$2; shift 2
cd /verif
for i in "$@"; do
  out=${pre}${i}-out; wt=${pre}${i}
  [ -f $out/notes.md ] || { echo "seed $i: no notes yet"; continue; }
  prop=$(head -1 $out/notes.md | grep -oE "C[0-9]{2}" | head -1)
  [ -n "$prop" ] || { echo "seed $i: no property line"; continue; }
  n=1; name="$prop-$suf"; while [ -d seeded/$name ]; do n=$((n+1)); name="$prop-$suf$n"; done
  feat=""; grep -qi "features parallel" $out/notes.md && [ "$prop" = "C11" ] && feat="--features parallel"
  tools/seed_eval.sh $name $prop $wt $out RKMN "$feat" > /tmp/seb_$name.txt 2>&1
  echo "seed $i -> $name: $(grep -E 'check rc' /tmp/seb_$name.txt) $(grep -c VIOLATION /tmp/seb_$name.txt) violations"
done
