//! `Sym`: a symbolic real scalar.  Running the real, generic varpro / nalgebra / levenberg-marquardt code
//! with `ScalarType = Sym` *is* a symbolic execution of that code: every arithmetic operation builds a
//! hash-consed term, every comparison is resolved concolically by an exact rational shadow value and
//! recorded in the path condition.  Constants are exact rationals and constant sub-terms are folded
//! exactly.  The arena can be dumped as JSON for the SMT emitter in /verif/lib/smt.py.
#![allow(clippy::all)]
use num_bigint::BigInt;
use num_rational::BigRational;
use num_traits::{Bounded, Float, FromPrimitive, Num, NumCast, One, Signed, ToPrimitive, Zero};
use std::collections::HashMap;
use std::fmt;
use std::ops::*;
use std::sync::Mutex;

pub type Q = BigRational;

#[derive(Clone, Debug, PartialEq, Eq, Hash)]
pub enum Node {
    Const(Q),
    Var(String),
    Add(u32, u32),
    Sub(u32, u32),
    Mul(u32, u32),
    Div(u32, u32),
    Neg(u32),
    Sqrt(u32),
    Abs(u32),
    /// uninterpreted function application
    Fun(String, Vec<u32>),
}

#[derive(Clone, Debug)]
pub struct Decision {
    pub lhs: u32,
    pub op: &'static str, // "<", "<=", ">", ">=", "="
    pub rhs: u32,
    pub outcome: bool,
}

pub struct Arena {
    pub nodes: Vec<Node>,
    pub shadow: Vec<Option<Q>>,
    pub index: HashMap<Node, u32>,
    pub trace: Vec<Decision>,
    /// shadow values for input variables (by name); variables not listed get a default from the harness
    pub inputs: HashMap<String, Q>,
    /// names of input variables in creation order with the shadow value used
    pub vars: Vec<(String, Q)>,
    /// number of reads of a `Sym` that was never written (uninitialised memory, poison pattern)
    pub garbage_reads: usize,
    /// number of times a symbolic value was concretised through `to_f64` & co
    pub concretised: usize,
    /// fold sqrt of constants approximately (used only for concrete-data runs through the LM loop)
    pub approx_sqrt: bool,
    /// round the shadow values of non-constant nodes to ~256 bits once they exceed 2048 bits (long runs through
    /// the optimizer loop: exact rationals grow exponentially with the nesting depth).  The terms stay exact.
    pub round_shadows: bool,
    /// decisions taken on operands without a shadow value (NaN-like): the rest of such a path is not meaningful
    pub undefined_decisions: usize,
}

impl Arena {
    fn new() -> Arena {
        Arena { nodes: Vec::new(), shadow: Vec::new(), index: HashMap::new(), trace: Vec::new(), inputs: HashMap::new(), vars: Vec::new(), garbage_reads: 0, concretised: 0, approx_sqrt: false, round_shadows: false, undefined_decisions: 0 }
    }
}

static ARENA: Mutex<Option<Arena>> = Mutex::new(None);

pub fn with_arena<R>(f: impl FnOnce(&mut Arena) -> R) -> R {
    let mut g = ARENA.lock().unwrap_or_else(|e| e.into_inner());
    if g.is_none() {
        *g = Some(Arena::new());
    }
    f(g.as_mut().unwrap())
}

pub fn reset_arena() {
    let mut g = ARENA.lock().unwrap_or_else(|e| e.into_inner());
    *g = Some(Arena::new());
}

/// The poison pattern the harness' allocator fills fresh memory with: a `Sym` read with this id was
/// never written.
pub const GARBAGE_ID: u32 = 0xA5A5_A5A5;

#[derive(Clone, Copy)]
#[repr(transparent)]
pub struct Sym(pub u32);

fn q_from_f64(v: f64) -> Option<Q> {
    Q::from_float(v)
}
pub fn q_to_f64(q: &Q) -> f64 {
    // robust conversion also for huge numerators/denominators: a 64-bit quotient and a power of two
    if q.is_zero() {
        return 0.0;
    }
    let neg = q.is_negative();
    let n = q.numer().abs();
    let d = q.denom().clone();
    let (nb, db) = (n.bits() as i64, d.bits() as i64);
    if nb < 900 && db < 900 {
        let v = n.to_f64().unwrap_or(f64::NAN) / d.to_f64().unwrap_or(f64::NAN);
        return if neg { -v } else { v };
    }
    let shift = 64 - (nb - db);
    let quo = if shift >= 0 { (n << (shift as usize)) / d } else { n / (d << ((-shift) as usize)) };
    let mut v = quo.to_f64().unwrap_or(f64::NAN);
    // v * 2^(-shift), in steps that neither overflow nor underflow prematurely
    let mut e = -shift;
    while e != 0 {
        let step = e.clamp(-1000, 1000);
        v *= 2f64.powi(step as i32);
        e -= step;
    }
    if neg {
        -v
    } else {
        v
    }
}

/// floor(sqrt(q) * 2^k) / 2^k with k chosen so that the result has about 256 significant bits
pub fn q_sqrt_256(q: &Q) -> Q {
    if q.is_zero() || q.is_negative() {
        return Q::from_integer(BigInt::from(0));
    }
    let (n, d) = (q.numer().clone(), q.denom().clone());
    // sqrt(n/d) = sqrt(n*d)/d ; scale n*d by 4^k so that the integer square root has >= 256 + bits(d) bits
    let nd = &n * &d;
    let want = 256 + d.bits() as i64;
    let have = (nd.bits() as i64) / 2;
    let k = (want - have).max(0) as usize;
    let r = (nd << (2 * k)).sqrt();
    Q::new(r, d << k)
}

fn mk_in(a: &mut Arena, n: Node, sh: Option<Q>) -> Sym {
    if let Some(&i) = a.index.get(&n) {
        return Sym(i);
    }
    let i = a.nodes.len() as u32;
    let sh = match sh {
        Some(q) if a.round_shadows && !matches!(n, Node::Const(_)) && q.numer().bits() + q.denom().bits() > 2048 && q.denom().bits() > 256 => {
            let shift = q.denom().bits() - 256;
            Some(Q::new(q.numer() >> shift, q.denom() >> shift))
        }
        other => other,
    };
    a.nodes.push(n.clone());
    a.shadow.push(sh);
    a.index.insert(n, i);
    Sym(i)
}
fn mk(n: Node, sh: Option<Q>) -> Sym {
    with_arena(|a| mk_in(a, n, sh))
}

fn valid(id: u32) -> bool {
    with_arena(|a| {
        if (id as usize) < a.nodes.len() {
            true
        } else {
            a.garbage_reads += 1;
            false
        }
    })
}

impl Sym {
    pub fn q(v: Q) -> Sym {
        mk(Node::Const(v.clone()), Some(v))
    }
    pub fn int(v: i64) -> Sym {
        Sym::q(Q::from_integer(BigInt::from(v)))
    }
    pub fn ratio(n: i64, d: i64) -> Sym {
        Sym::q(Q::new(BigInt::from(n), BigInt::from(d)))
    }
    /// exact constant from an f64 (dyadic rational); non-finite values are mapped to a huge constant
    pub fn cst(v: f64) -> Sym {
        match q_from_f64(v) {
            Some(q) => Sym::q(q),
            None => {
                // NaN / inf have no counterpart over the reals; represented by an uninterpreted constant
                Sym::fun(if v.is_nan() { "NONFINITE_nan" } else if v > 0.0 { "NONFINITE_pinf" } else { "NONFINITE_ninf" }, &[])
            }
        }
    }
    /// a fresh (or re-used, by name) symbolic input variable; `default_shadow` is used unless the
    /// driver supplied a shadow value for this name
    pub fn var(name: &str, default_shadow: Q) -> Sym {
        with_arena(|a| {
            let sh = a.inputs.get(name).cloned().unwrap_or(default_shadow);
            let n = Node::Var(name.to_string());
            if !a.index.contains_key(&n) {
                a.vars.push((name.to_string(), sh.clone()));
            }
            mk_in(a, n, Some(sh))
        })
    }
    pub fn fun(name: &str, args: &[Sym]) -> Sym {
        // deterministic pseudo shadow from the name and the argument shadows
        let sh = with_arena(|a| {
            let mut h: u64 = 1469598103934665603;
            for b in name.bytes() {
                h = (h ^ b as u64).wrapping_mul(1099511628211);
            }
            for s in args {
                let v = a.shadow.get(s.0 as usize).cloned().flatten().map(|q| q_to_f64(&q)).unwrap_or(0.5);
                h = (h ^ v.to_bits()).wrapping_mul(1099511628211);
            }
            Q::new(BigInt::from((h % 2003) as i64 + 1), BigInt::from(211))
        });
        mk(Node::Fun(name.to_string(), args.iter().map(|s| s.0).collect()), Some(sh))
    }
    pub fn is_garbage(self) -> bool {
        !valid(self.0)
    }
    pub fn node(self) -> Node {
        if !valid(self.0) {
            return Node::Fun("GARBAGE".into(), vec![]);
        }
        with_arena(|a| a.nodes[self.0 as usize].clone())
    }
    pub fn shadow(self) -> Option<Q> {
        if !valid(self.0) {
            return None;
        }
        with_arena(|a| a.shadow[self.0 as usize].clone())
    }
    pub fn sh(self) -> f64 {
        self.shadow().map(|q| q_to_f64(&q)).unwrap_or(f64::NAN)
    }
    pub fn as_const(self) -> Option<Q> {
        if let Node::Const(c) = self.node() {
            Some(c)
        } else {
            None
        }
    }
    fn garbage() -> Sym {
        Sym::fun("GARBAGE", &[])
    }
    fn decide(self, op: &'static str, o: Sym) -> bool {
        let (a, b) = (self.shadow(), o.shadow());
        let outcome = match (&a, &b) {
            (Some(x), Some(y)) => match op {
                "<" => x < y,
                "<=" => x <= y,
                ">" => x > y,
                ">=" => x >= y,
                "=" => x == y,
                _ => unreachable!(),
            },
            _ => {
                // undefined shadow (division by zero): behaves like NaN
                let first = with_arena(|ar| {
                    ar.undefined_decisions += 1;
                    ar.undefined_decisions == 1
                });
                if first && std::env::var("VERIF_SYM_DEBUG").is_ok() {
                    eprintln!("first undefined decision: #{} ({:?}, shadow {:?}) {} #{} ({:?}, shadow {:?})", self.0, self.node(), a.is_some(), op, o.0, o.node(), b.is_some());
                }
                false
            }
        };
        if self.0 == o.0 && a.is_some() {
            return outcome;
        }
        if self.as_const().is_some() && o.as_const().is_some() {
            return outcome;
        }
        with_arena(|ar| ar.trace.push(Decision { lhs: self.0, op, rhs: o.0, outcome }));
        outcome
    }
    pub fn s_abs(self) -> Sym {
        if let Some(c) = self.as_const() {
            return Sym::q(c.abs());
        }
        if let Node::Abs(_) = self.node() {
            return self;
        }
        let sh = self.shadow().map(|q| q.abs());
        mk(Node::Abs(self.0), sh)
    }
    pub fn s_sqrt(self) -> Sym {
        if self.is_garbage() {
            return Sym::garbage();
        }
        if let Some(c) = self.as_const() {
            if !c.is_negative() {
                // exact rational square root?
                let (n, d) = (c.numer().sqrt(), c.denom().sqrt());
                if &(&n * &n) == c.numer() && &(&d * &d) == c.denom() {
                    return Sym::q(Q::new(n, d));
                }
                if with_arena(|a| a.approx_sqrt) {
                    if let Some(q) = q_from_f64(q_to_f64(&c).sqrt()) {
                        return Sym::q(q);
                    }
                }
            }
        }
        let clamp = with_arena(|a| a.round_shadows);
        let sh = self.shadow().and_then(|q| {
            if q.is_negative() {
                // rounded shadows: a radicand that is exactly zero may come out as -1e-100
                if clamp && q_to_f64(&q) > -1e-30 {
                    Some(Q::from_integer(BigInt::from(0)))
                } else {
                    None
                }
            } else if clamp {
                // long runs: a 256-bit square root (the decisions of an optimizer close to convergence compare quantities
                // that differ in the 17th digit; f64-accurate shadows would take some of them the wrong way)
                Some(q_sqrt_256(&q))
            } else {
                q_from_f64(q_to_f64(&q).sqrt())
            }
        });
        mk(Node::Sqrt(self.0), sh)
    }
    fn un(self, f: &'static str) -> Sym {
        Sym::fun(f, &[self])
    }
}

impl fmt::Debug for Sym {
    fn fmt(&self, f: &mut fmt::Formatter<'_>) -> fmt::Result {
        write!(f, "Sym#{}~{}", self.0, self.sh())
    }
}
impl fmt::Display for Sym {
    fn fmt(&self, f: &mut fmt::Formatter<'_>) -> fmt::Result {
        write!(f, "Sym#{}~{}", self.0, self.sh())
    }
}

impl PartialEq for Sym {
    fn eq(&self, o: &Sym) -> bool {
        self.decide("=", *o)
    }
}
impl PartialOrd for Sym {
    fn partial_cmp(&self, o: &Sym) -> Option<std::cmp::Ordering> {
        use std::cmp::Ordering::*;
        if self.shadow().is_none() || o.shadow().is_none() {
            return None;
        }
        if self.decide("<", *o) {
            Some(Less)
        } else if self.decide(">", *o) {
            Some(Greater)
        } else {
            Some(Equal)
        }
    }
    fn lt(&self, o: &Sym) -> bool {
        self.decide("<", *o)
    }
    fn le(&self, o: &Sym) -> bool {
        self.decide("<=", *o)
    }
    fn gt(&self, o: &Sym) -> bool {
        self.decide(">", *o)
    }
    fn ge(&self, o: &Sym) -> bool {
        self.decide(">=", *o)
    }
}

fn is_c(s: Sym, v: i64) -> bool {
    s.as_const().map(|c| c == Q::from_integer(BigInt::from(v))).unwrap_or(false)
}

impl Add for Sym {
    type Output = Sym;
    fn add(self, o: Sym) -> Sym {
        if self.is_garbage() || o.is_garbage() {
            return Sym::garbage();
        }
        if let (Some(x), Some(y)) = (self.as_const(), o.as_const()) {
            return Sym::q(x + y);
        }
        if is_c(self, 0) {
            return o;
        }
        if is_c(o, 0) {
            return self;
        }
        let sh = match (self.shadow(), o.shadow()) {
            (Some(x), Some(y)) => Some(x + y),
            _ => None,
        };
        // commutative normal form: smaller id first
        let (a, b) = if self.0 <= o.0 { (self.0, o.0) } else { (o.0, self.0) };
        mk(Node::Add(a, b), sh)
    }
}
impl Sub for Sym {
    type Output = Sym;
    fn sub(self, o: Sym) -> Sym {
        if self.is_garbage() || o.is_garbage() {
            return Sym::garbage();
        }
        if let (Some(x), Some(y)) = (self.as_const(), o.as_const()) {
            return Sym::q(x - y);
        }
        if is_c(o, 0) {
            return self;
        }
        if is_c(self, 0) {
            return -o;
        }
        let sh = match (self.shadow(), o.shadow()) {
            (Some(x), Some(y)) => Some(x - y),
            _ => None,
        };
        mk(Node::Sub(self.0, o.0), sh)
    }
}
impl Mul for Sym {
    type Output = Sym;
    fn mul(self, o: Sym) -> Sym {
        if self.is_garbage() || o.is_garbage() {
            return Sym::garbage();
        }
        if let (Some(x), Some(y)) = (self.as_const(), o.as_const()) {
            return Sym::q(x * y);
        }
        if is_c(self, 1) {
            return o;
        }
        if is_c(o, 1) {
            return self;
        }
        // x * 0 = 0 holds over the reals whenever x is defined (definedness = divisors non-zero is an
        // explicit assumption of every query)
        if is_c(self, 0) {
            return self;
        }
        if is_c(o, 0) {
            return o;
        }
        let sh = match (self.shadow(), o.shadow()) {
            (Some(x), Some(y)) => Some(x * y),
            _ => None,
        };
        let (a, b) = if self.0 <= o.0 { (self.0, o.0) } else { (o.0, self.0) };
        mk(Node::Mul(a, b), sh)
    }
}
impl Div for Sym {
    type Output = Sym;
    fn div(self, o: Sym) -> Sym {
        if self.is_garbage() || o.is_garbage() {
            return Sym::garbage();
        }
        if let (Some(x), Some(y)) = (self.as_const(), o.as_const()) {
            if !y.is_zero() {
                return Sym::q(x / y);
            }
        }
        if is_c(o, 1) {
            return self;
        }
        let sh = match (self.shadow(), o.shadow()) {
            (Some(x), Some(y)) if !y.is_zero() => Some(x / y),
            _ => None,
        };
        mk(Node::Div(self.0, o.0), sh)
    }
}
impl Neg for Sym {
    type Output = Sym;
    fn neg(self) -> Sym {
        if self.is_garbage() {
            return Sym::garbage();
        }
        if let Some(c) = self.as_const() {
            return Sym::q(-c);
        }
        if let Node::Neg(x) = self.node() {
            return Sym(x);
        }
        let sh = self.shadow().map(|q| -q);
        mk(Node::Neg(self.0), sh)
    }
}
impl Rem for Sym {
    type Output = Sym;
    fn rem(self, o: Sym) -> Sym {
        Sym::fun("rem", &[self, o])
    }
}
macro_rules! assign_ops { ($($tr:ident $m:ident $op:tt),*) => { $( impl $tr for Sym { fn $m(&mut self, o: Sym) { *self = *self $op o; } } )* } }
assign_ops!(AddAssign add_assign +, SubAssign sub_assign -, MulAssign mul_assign *, DivAssign div_assign /, RemAssign rem_assign %);

impl Zero for Sym {
    fn zero() -> Sym {
        Sym::int(0)
    }
    fn is_zero(&self) -> bool {
        *self == Sym::int(0)
    }
}
impl One for Sym {
    fn one() -> Sym {
        Sym::int(1)
    }
}
impl Num for Sym {
    type FromStrRadixErr = ();
    fn from_str_radix(_: &str, _: u32) -> Result<Sym, ()> {
        Err(())
    }
}
fn concretise(s: &Sym) -> f64 {
    if s.as_const().is_none() {
        with_arena(|a| a.concretised += 1);
    }
    s.sh()
}
impl ToPrimitive for Sym {
    fn to_i64(&self) -> Option<i64> {
        concretise(self).to_i64()
    }
    fn to_u64(&self) -> Option<u64> {
        concretise(self).to_u64()
    }
    fn to_f64(&self) -> Option<f64> {
        Some(concretise(self))
    }
}
impl FromPrimitive for Sym {
    fn from_i64(n: i64) -> Option<Sym> {
        Some(Sym::int(n))
    }
    fn from_u64(n: u64) -> Option<Sym> {
        Some(Sym::q(Q::from_integer(BigInt::from(n))))
    }
    fn from_f64(n: f64) -> Option<Sym> {
        Some(Sym::cst(n))
    }
}
impl NumCast for Sym {
    fn from<T: ToPrimitive>(n: T) -> Option<Sym> {
        n.to_f64().map(Sym::cst)
    }
}
impl Bounded for Sym {
    fn min_value() -> Sym {
        Sym::cst(f64::MIN)
    }
    fn max_value() -> Sym {
        Sym::cst(f64::MAX)
    }
}
impl Signed for Sym {
    fn abs(&self) -> Sym {
        self.s_abs()
    }
    fn abs_sub(&self, o: &Sym) -> Sym {
        if *self <= *o {
            Sym::int(0)
        } else {
            *self - *o
        }
    }
    fn signum(&self) -> Sym {
        if *self > Sym::int(0) {
            Sym::int(1)
        } else if *self < Sym::int(0) {
            Sym::int(-1)
        } else {
            Sym::int(0)
        }
    }
    fn is_positive(&self) -> bool {
        *self > Sym::int(0)
    }
    fn is_negative(&self) -> bool {
        *self < Sym::int(0)
    }
}
macro_rules! fl_un { ($($f:ident),*) => { $( fn $f(self) -> Sym { self.un(stringify!($f)) } )* } }
impl Float for Sym {
    fn nan() -> Sym {
        Sym::cst(f64::NAN)
    }
    fn infinity() -> Sym {
        Sym::cst(f64::INFINITY)
    }
    fn neg_infinity() -> Sym {
        Sym::cst(f64::NEG_INFINITY)
    }
    fn neg_zero() -> Sym {
        Sym::int(0)
    }
    fn min_value() -> Sym {
        Sym::cst(f64::MIN)
    }
    fn min_positive_value() -> Sym {
        Sym::cst(f64::MIN_POSITIVE)
    }
    fn max_value() -> Sym {
        Sym::cst(f64::MAX)
    }
    fn epsilon() -> Sym {
        Sym::cst(f64::EPSILON)
    }
    fn is_nan(self) -> bool {
        false
    }
    fn is_infinite(self) -> bool {
        false
    }
    fn is_finite(self) -> bool {
        true
    }
    fn is_normal(self) -> bool {
        // over the reals there are no subnormals, infinities or NaN: `is_normal` is `!= 0` (a recorded decision)
        self != Sym::int(0)
    }
    fn classify(self) -> std::num::FpCategory {
        if self == Sym::int(0) {
            std::num::FpCategory::Zero
        } else {
            std::num::FpCategory::Normal
        }
    }
    fl_un!(floor, ceil, round, trunc, fract, exp, exp2, ln, log2, log10, cbrt, sin, cos, tan, asin, acos, atan, exp_m1, ln_1p, sinh, cosh, tanh, asinh, acosh, atanh);
    fn abs(self) -> Sym {
        self.s_abs()
    }
    fn signum(self) -> Sym {
        Signed::signum(&self)
    }
    fn is_sign_positive(self) -> bool {
        self >= Sym::int(0)
    }
    fn is_sign_negative(self) -> bool {
        self < Sym::int(0)
    }
    fn mul_add(self, a: Sym, b: Sym) -> Sym {
        self * a + b
    }
    fn recip(self) -> Sym {
        Sym::int(1) / self
    }
    fn powi(self, n: i32) -> Sym {
        let mut r = Sym::int(1);
        for _ in 0..n.abs() {
            r = r * self;
        }
        if n < 0 {
            Sym::int(1) / r
        } else {
            r
        }
    }
    fn powf(self, n: Sym) -> Sym {
        Sym::fun("powf", &[self, n])
    }
    fn sqrt(self) -> Sym {
        self.s_sqrt()
    }
    fn log(self, b: Sym) -> Sym {
        Sym::fun("log", &[self, b])
    }
    fn max(self, o: Sym) -> Sym {
        if self >= o {
            self
        } else {
            o
        }
    }
    fn min(self, o: Sym) -> Sym {
        if self <= o {
            self
        } else {
            o
        }
    }
    fn abs_sub(self, o: Sym) -> Sym {
        Signed::abs_sub(&self, &o)
    }
    fn hypot(self, o: Sym) -> Sym {
        (self * self + o * o).s_sqrt()
    }
    fn atan2(self, o: Sym) -> Sym {
        Sym::fun("atan2", &[self, o])
    }
    fn sin_cos(self) -> (Sym, Sym) {
        (Float::sin(self), Float::cos(self))
    }
    fn integer_decode(self) -> (u64, i16, i8) {
        Float::integer_decode(concretise(&self))
    }
}
// approx
impl approx::AbsDiffEq for Sym {
    type Epsilon = Sym;
    fn default_epsilon() -> Sym {
        Sym::cst(f64::EPSILON)
    }
    fn abs_diff_eq(&self, o: &Sym, e: Sym) -> bool {
        (*self - *o).s_abs() <= e
    }
}
impl approx::RelativeEq for Sym {
    fn default_max_relative() -> Sym {
        Sym::cst(f64::EPSILON)
    }
    fn relative_eq(&self, o: &Sym, e: Sym, r: Sym) -> bool {
        // same structure as the float implementation (approx 0.5)
        if *self == *o {
            return true;
        }
        let d = (*self - *o).s_abs();
        if d <= e {
            return true;
        }
        let (a, b) = (self.s_abs(), o.s_abs());
        let largest = if b > a { b } else { a };
        d <= largest * r
    }
}
impl approx::UlpsEq for Sym {
    fn default_max_ulps() -> u32 {
        4
    }
    fn ulps_eq(&self, o: &Sym, e: Sym, _u: u32) -> bool {
        (*self - *o).s_abs() <= e
    }
}
// simba
use simba::scalar::{ComplexField, Field, RealField, SubsetOf};
use simba::simd::SimdValue;
impl SimdValue for Sym {
    const LANES: usize = 1;
    type Element = Sym;
    type SimdBool = bool;
    fn splat(v: Sym) -> Sym {
        v
    }
    fn extract(&self, _: usize) -> Sym {
        *self
    }
    unsafe fn extract_unchecked(&self, _: usize) -> Sym {
        *self
    }
    fn replace(&mut self, _: usize, v: Sym) {
        *self = v
    }
    unsafe fn replace_unchecked(&mut self, _: usize, v: Sym) {
        *self = v
    }
    fn select(self, c: bool, o: Sym) -> Sym {
        if c {
            self
        } else {
            o
        }
    }
}
impl SubsetOf<Sym> for Sym {
    fn to_superset(&self) -> Sym {
        *self
    }
    fn from_superset_unchecked(e: &Sym) -> Sym {
        *e
    }
    fn is_in_subset(_: &Sym) -> bool {
        true
    }
}
impl SubsetOf<Sym> for f64 {
    fn to_superset(&self) -> Sym {
        Sym::cst(*self)
    }
    fn from_superset_unchecked(e: &Sym) -> f64 {
        concretise(e)
    }
    fn is_in_subset(_: &Sym) -> bool {
        true
    }
}
impl SubsetOf<Sym> for f32 {
    fn to_superset(&self) -> Sym {
        Sym::cst(*self as f64)
    }
    fn from_superset_unchecked(e: &Sym) -> f32 {
        concretise(e) as f32
    }
    fn is_in_subset(_: &Sym) -> bool {
        true
    }
}
impl Field for Sym {}
macro_rules! cf_un { ($($f:ident),*) => { $( fn $f(self) -> Sym { Float::$f(self) } )* } }
impl ComplexField for Sym {
    type RealField = Sym;
    fn from_real(re: Sym) -> Sym {
        re
    }
    fn real(self) -> Sym {
        self
    }
    fn imaginary(self) -> Sym {
        Sym::int(0)
    }
    fn modulus(self) -> Sym {
        self.s_abs()
    }
    fn modulus_squared(self) -> Sym {
        self * self
    }
    fn argument(self) -> Sym {
        Sym::fun("argument", &[self])
    }
    fn norm1(self) -> Sym {
        self.s_abs()
    }
    fn scale(self, f: Sym) -> Sym {
        self * f
    }
    fn unscale(self, f: Sym) -> Sym {
        self / f
    }
    fn to_exp(self) -> (Sym, Sym) {
        if self >= Sym::int(0) {
            (self, Sym::int(1))
        } else {
            (-self, Sym::int(-1))
        }
    }
    cf_un!(floor, ceil, round, trunc, fract, abs, signum, recip, sin, cos, tan, asin, acos, atan, sinh, cosh, tanh, asinh, acosh, atanh, ln, log2, log10, sqrt, exp, exp2, exp_m1, ln_1p, cbrt);
    fn sin_cos(self) -> (Sym, Sym) {
        Float::sin_cos(self)
    }
    fn mul_add(self, a: Sym, b: Sym) -> Sym {
        self * a + b
    }
    fn conjugate(self) -> Sym {
        self
    }
    fn log(self, b: Sym) -> Sym {
        Float::log(self, b)
    }
    fn powi(self, n: i32) -> Sym {
        Float::powi(self, n)
    }
    fn powf(self, n: Sym) -> Sym {
        Float::powf(self, n)
    }
    fn powc(self, n: Sym) -> Sym {
        Float::powf(self, n)
    }
    fn hypot(self, o: Sym) -> Sym {
        Float::hypot(self, o)
    }
    fn is_finite(&self) -> bool {
        true
    }
    fn try_sqrt(self) -> Option<Sym> {
        if self >= Sym::int(0) {
            Some(self.s_sqrt())
        } else {
            None
        }
    }
    fn sinh_cosh(self) -> (Sym, Sym) {
        (Float::sinh(self), Float::cosh(self))
    }
}
macro_rules! rconst { ($($f:ident = $v:expr),*) => { $( fn $f() -> Sym { Sym::cst($v) } )* } }
impl RealField for Sym {
    fn is_sign_positive(&self) -> bool {
        Float::is_sign_positive(*self)
    }
    fn is_sign_negative(&self) -> bool {
        Float::is_sign_negative(*self)
    }
    fn copysign(self, s: Sym) -> Sym {
        let a = self.s_abs();
        if s >= Sym::int(0) {
            a
        } else {
            -a
        }
    }
    fn max(self, o: Sym) -> Sym {
        Float::max(self, o)
    }
    fn min(self, o: Sym) -> Sym {
        Float::min(self, o)
    }
    fn clamp(self, lo: Sym, hi: Sym) -> Sym {
        if self < lo {
            lo
        } else if self > hi {
            hi
        } else {
            self
        }
    }
    fn atan2(self, o: Sym) -> Sym {
        Float::atan2(self, o)
    }
    fn min_value() -> Option<Sym> {
        Some(Sym::cst(f64::MIN))
    }
    fn max_value() -> Option<Sym> {
        Some(Sym::cst(f64::MAX))
    }
    rconst!(pi = std::f64::consts::PI, two_pi = 2.0 * std::f64::consts::PI, frac_pi_2 = std::f64::consts::FRAC_PI_2, frac_pi_3 = std::f64::consts::FRAC_PI_3, frac_pi_4 = std::f64::consts::FRAC_PI_4,
        frac_pi_6 = std::f64::consts::FRAC_PI_6, frac_pi_8 = std::f64::consts::FRAC_PI_8, frac_1_pi = std::f64::consts::FRAC_1_PI, frac_2_pi = std::f64::consts::FRAC_2_PI, frac_2_sqrt_pi = std::f64::consts::FRAC_2_SQRT_PI,
        e = std::f64::consts::E, log2_e = std::f64::consts::LOG2_E, log10_e = std::f64::consts::LOG10_E, ln_2 = std::f64::consts::LN_2, ln_10 = std::f64::consts::LN_10);
}

// ---------------------------------------------------------------------------------------------
// JSON dump of the arena (hand-written: no serde dependency)
// ---------------------------------------------------------------------------------------------
pub fn json_str(s: &str) -> String {
    let mut o = String::from("\"");
    for c in s.chars() {
        match c {
            '"' => o.push_str("\\\""),
            '\\' => o.push_str("\\\\"),
            '\n' => o.push_str("\\n"),
            c if (c as u32) < 0x20 => o.push_str(&format!("\\u{:04x}", c as u32)),
            c => o.push(c),
        }
    }
    o.push('"');
    o
}
pub fn q_str(q: &Q) -> String {
    format!("{}/{}", q.numer(), q.denom())
}
/// nodes as a JSON array: ["c","n/d"] | ["v",name] | ["+",a,b] | ["-",a,b] | ["*",a,b] | ["/",a,b] | ["neg",a] | ["sqrt",a] | ["abs",a] | ["f",name,[args]]
pub fn dump_nodes_json() -> String {
    with_arena(|a| {
        let mut o = String::from("[");
        for (i, n) in a.nodes.iter().enumerate() {
            if i > 0 {
                o.push(',');
            }
            match n {
                Node::Const(c) => o.push_str(&format!("[\"c\",\"{}\"]", q_str(c))),
                Node::Var(v) => o.push_str(&format!("[\"v\",{}]", json_str(v))),
                Node::Add(x, y) => o.push_str(&format!("[\"+\",{x},{y}]")),
                Node::Sub(x, y) => o.push_str(&format!("[\"-\",{x},{y}]")),
                Node::Mul(x, y) => o.push_str(&format!("[\"*\",{x},{y}]")),
                Node::Div(x, y) => o.push_str(&format!("[\"/\",{x},{y}]")),
                Node::Neg(x) => o.push_str(&format!("[\"neg\",{x}]")),
                Node::Sqrt(x) => o.push_str(&format!("[\"sqrt\",{x}]")),
                Node::Abs(x) => o.push_str(&format!("[\"abs\",{x}]")),
                Node::Fun(f, args) => o.push_str(&format!("[\"f\",{},[{}]]", json_str(f), args.iter().map(|x| x.to_string()).collect::<Vec<_>>().join(","))),
            }
        }
        o.push(']');
        o
    })
}
pub fn dump_trace_json(from: usize) -> String {
    with_arena(|a| {
        let mut o = String::from("[");
        for (i, d) in a.trace.iter().enumerate().skip(from) {
            if i > from {
                o.push(',');
            }
            o.push_str(&format!("[{},\"{}\",{},{}]", d.lhs, d.op, d.rhs, d.outcome));
        }
        o.push(']');
        o
    })
}
pub fn dump_vars_json() -> String {
    with_arena(|a| {
        let mut o = String::from("{");
        for (i, (n, q)) in a.vars.iter().enumerate() {
            if i > 0 {
                o.push(',');
            }
            o.push_str(&format!("{}:\"{}\"", json_str(n), q_str(q)));
        }
        o.push('}');
        o
    })
}
pub fn trace_len() -> usize {
    with_arena(|a| a.trace.len())
}
pub fn parse_q(s: &str) -> Option<Q> {
    let s = s.trim();
    if let Some((n, d)) = s.split_once('/') {
        let n: BigInt = n.trim().parse().ok()?;
        let d: BigInt = d.trim().parse().ok()?;
        if d.is_zero() {
            return None;
        }
        Some(Q::new(n, d))
    } else if s.contains('.') || s.contains('e') {
        q_from_f64(s.parse::<f64>().ok()?)
    } else {
        Some(Q::from_integer(s.parse::<BigInt>().ok()?))
    }
}
