//! overlay access module (child of `statistics`): exposes crate-private items to the engine-R harness.
//! Compiled only in the scratch overlay under `--cfg verif_sym`; never part of /repo.
//! Accessors of private FIELDS are optional (`--cfg verif_acc_*`): if a refactoring renames a field the driver
//! rebuilds without that accessor and the obligations that need it are skipped (and reported as skipped).
use super::*;

#[cfg(verif_acc_trycalc)]
pub fn try_calculate_pub<Model>(
    model: &Model,
    weighted_data: nalgebra::VectorView<Model::ScalarType, Dyn>,
    weights: &Weights<Model::ScalarType, Dyn>,
    linear_coefficients: nalgebra::VectorView<Model::ScalarType, Dyn>,
) -> Result<FitStatistics<Model>, String>
where
    Model: SeparableNonlinearModel,
    Model::ScalarType: Scalar + ComplexField + Float + Zero + FromPrimitive + Copy + RealField,
{
    FitStatistics::try_calculate(model, weighted_data, weights, linear_coefficients).map_err(|e| {
        match e {
            Error::ModelEvaluation(_) => "ModelEvaluation".to_string(),
            Error::Underdetermined => "Underdetermined".to_string(),
            Error::IntegerToFloatConversion(_) => "IntegerToFloatConversion".to_string(),
            Error::MatrixInversion => "MatrixInversion".to_string(),
            #[allow(unreachable_patterns)]
            _ => "Other".to_string(),
        }
    })
}

#[cfg(verif_acc_sigma)]
pub fn unscaled_sigma<Model: SeparableNonlinearModel>(s: &FitStatistics<Model>) -> OVector<Model::ScalarType, Dyn> {
    s.unscaled_confidence_sigma.clone()
}
#[cfg(verif_acc_dof)]
pub fn degrees_of_freedom<Model: SeparableNonlinearModel>(s: &FitStatistics<Model>) -> usize {
    s.degrees_of_freedom
}
#[cfg(verif_acc_counts)]
pub fn counts<Model: SeparableNonlinearModel>(s: &FitStatistics<Model>) -> (usize, usize) {
    (s.linear_coefficient_count, s.nonlinear_parameter_count)
}
