//! overlay access module (child of `solvers::levmar`): exposes crate-private state to the engine-R harness.
//! Compiled only in the scratch overlay under `--cfg verif_sym`; never part of /repo.
use super::*;

pub fn svd_epsilon<Model, const MRHS: bool, const PAR: bool>(p: &LevMarProblem<Model, MRHS, PAR>) -> <Model::ScalarType as ComplexField>::RealField
where
    Model: SeparableNonlinearModel,
    Model::ScalarType: Scalar + ComplexField + Copy,
{
    p.svd_epsilon.clone()
}
pub fn cache_present<Model, const MRHS: bool, const PAR: bool>(p: &LevMarProblem<Model, MRHS, PAR>) -> bool
where
    Model: SeparableNonlinearModel,
    Model::ScalarType: Scalar + ComplexField + Copy,
{
    p.cached.is_some()
}
pub fn y_w<Model, const MRHS: bool, const PAR: bool>(p: &LevMarProblem<Model, MRHS, PAR>) -> DMatrix<Model::ScalarType>
where
    Model: SeparableNonlinearModel,
    Model::ScalarType: Scalar + ComplexField + Copy,
{
    p.Y_w.clone()
}
pub fn cached_coefficients<Model, const MRHS: bool, const PAR: bool>(p: &LevMarProblem<Model, MRHS, PAR>) -> Option<DMatrix<Model::ScalarType>>
where
    Model: SeparableNonlinearModel,
    Model::ScalarType: Scalar + ComplexField + Copy,
{
    p.cached.as_ref().map(|c| c.linear_coefficients.clone())
}
pub fn mk_fit_result<Model, const MRHS: bool>(problem: LevMarProblem<Model, MRHS, false>, report: MinimizationReport<Model::ScalarType>) -> FitResult<Model, MRHS>
where
    Model: SeparableNonlinearModel,
    Model::ScalarType: RealField + Scalar + Float,
{
    FitResult::new(problem, report)
}
