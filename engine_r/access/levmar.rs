//! overlay access module (child of `solvers::levmar`): exposes crate-private state to the engine-R harness.
//! Compiled only in the scratch overlay under `--cfg verif_sym`; never part of /repo.
//! Kept minimal on purpose: every private name used here is a way for a refactoring to break the harness build.
use super::*;

#[cfg(verif_acc_eps)]
pub fn svd_epsilon<Model, const MRHS: bool, const PAR: bool>(p: &LevMarProblem<Model, MRHS, PAR>) -> <Model::ScalarType as ComplexField>::RealField
where
    Model: SeparableNonlinearModel,
    Model::ScalarType: Scalar + ComplexField + Copy,
{
    p.svd_epsilon.clone()
}
