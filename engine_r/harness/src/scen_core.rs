//! Scenario `core`: the real `LevMarProblemBuilder::build`, `LeastSquaresProblem::{set_params, params,
//! residuals, jacobian}`, `linear_coefficients`, `weighted_data`, `FitResult::best_fit` executed on a
//! stub model whose matrices are symbolic.  Emits obligations for C01, C02, C03, C09, C10, C18.
use crate::hs::*;
use crate::stub::*;
use crate::Cfg;
use levenberg_marquardt::{LeastSquaresProblem, MinimizationReport, TerminationReason};
use nalgebra::{DMatrix, DVector};
use varpro::solvers::levmar::*;

pub fn small(i: usize, salt: usize) -> (i64, i64) {
    // pseudo-random small rationals (never zero): generic default shadow values
    let mut h = (i as u64).wrapping_mul(0x9E3779B97F4A7C15) ^ (salt as u64).wrapping_mul(0xD1B54A32D192ED03) ^ 0x2545F4914F6CDD1D;
    h ^= h >> 29;
    h = h.wrapping_mul(0xBF58476D1CE4E5B9);
    h ^= h >> 32;
    let num = (h % 37) as i64 + 1;
    let den = [1i64, 2, 3, 4, 5, 7][((h >> 8) % 6) as usize];
    let sign = if (h >> 16) % 3 == 0 { -1 } else { 1 };
    (sign * num, den)
}

pub struct Inputs<T: HS> {
    pub n: usize,
    pub m: usize,
    pub s: usize,
    pub p: usize,
    pub w: Option<DVector<T>>,
    pub y: DMatrix<T>,
    pub eps: Option<T>,
    pub plants: Vec<Option<Plant<T>>>,
    pub states: Vec<State<T>>,
    pub alphas: Vec<DVector<T>>,
    pub twin: bool,
}

/// Build the symbolic inputs.  Planted tier: A_st = U_st diag(sigma_st) V_st^T and Phi_st := W^{-1} A_st.
pub fn make_inputs<T: HS>(cfg: &Cfg, out: &mut Out<T>, nstates: usize) -> Inputs<T> {
    let (n, m, s, p) = (cfg.usize("n", 3), cfg.usize("m", 2), cfg.usize("s", 1), cfg.usize("p", 1));
    let wkind = cfg.str("w", "diag");
    let real_svd = cfg.usize("real_svd", 0) == 1;
    let zero_w = cfg.opt_usize("zero_w");
    let zero_d = cfg.opt_usize("zero_d");
    let (useed, vseed) = (cfg.usize("useed", 2) as u64, cfg.usize("vseed", 2) as u64);
    let one = T::ratio(1, 1);
    let zero = T::ratio(0, 1);
    let w: Option<DVector<T>> = match wkind.as_str() {
        "none" => None,
        "unit" => Some(DVector::from_element(n, one)),
        _ => Some(DVector::from_fn(n, |i, _| {
            if zero_w == Some(i) {
                zero
            } else {
                let (a, b) = small(i, 1);
                T::var(&format!("w{i}"), a, b)
            }
        })),
    };
    if let Some(w) = &w {
        if wkind == "diag" && !real_svd {
            for i in 0..n {
                if zero_w != Some(i) {
                    out.assume(w[i], "!=", zero);
                }
            }
        }
    }
    let y = DMatrix::from_fn(n, s, |i, j| {
        let (a, b) = small(i + 3 * j, 2);
        T::var(&format!("y{i}_{j}"), a, b)
    });
    let eps = match cfg.str("eps", "default").as_str() {
        "default" => None,
        "neg" => Some(T::var("eps", -1, 2)),
        // an exactly-zero threshold is a legitimate request: nothing but exact zeros is truncated
        "zero" => Some(T::ratio(0, 1)),
        _ => Some(T::var("eps", 1, 2)),
    };
    let mut plants = vec![];
    let mut states = vec![];
    let mut alphas = vec![];
    for st in 0..nstates {
        let k = n.min(m);
        let d: Vec<DMatrix<T>> = (0..p)
            .map(|q| {
                DMatrix::from_fn(n, m, |i, j| {
                    // a derivative column that vanishes identically at the FIRST parameters only (e.g. d/dw cos(w x) at w = 0):
                    // nothing detected there may be carried over to later parameters
                    if st == 0 && zero_d == Some(j) {
                        return zero;
                    }
                    let (a, b) = small(i * m + j + q * 5, 3 + st);
                    T::var(&format!("d{st}_{q}_{i}_{j}"), a, b)
                })
            })
            .collect();
        let phi = if real_svd {
            plants.push(None);
            DMatrix::from_fn(n, m, |i, j| {
                let (a, b) = small(i * m + j, 5 + st);
                T::var(&format!("phi{st}_{i}_{j}"), a, b)
            })
        } else {
            let sigma = DVector::from_fn(k, |j, _| T::var(&format!("s{st}_{j}"), (3 + 2 * ((j + st) % k)) as i64, 1 + (j as i64 % 2)));
            for j in 0..k {
                out.assume(sigma[j], ">=", zero);
            }
            let (us, vs) = (useed + 17 * st as u64 * (useed > 0) as u64, vseed + 29 * st as u64 * (vseed > 0) as u64);
            let pl = match zero_w {
                // a zero weight in the planted tier: row z of W*Phi is zero, so the planted U gets a zero row there
                // (an orthonormal frame on the other rows) and row z of Phi itself is free
                Some(z) if n > m => {
                    let small = Plant::new(n - 1, m, us, vs, sigma.clone());
                    let u = DMatrix::from_fn(n, small.u.ncols(), |i, j| if i == z { zero } else { small.u[(if i < z { i } else { i - 1 }, j)] });
                    Plant { u, sigma: small.sigma, vt: small.vt }
                }
                _ => Plant::new(n, m, us, vs, sigma),
            };
            let a = pl.product();
            let phi = DMatrix::from_fn(n, m, |i, j| match (&w, wkind.as_str()) {
                (Some(_), "diag") if zero_w == Some(i) => {
                    let (x, y) = small(i * m + j, 11 + st);
                    T::var(&format!("phiz{st}_{i}_{j}"), x, y)
                }
                (Some(w), "diag") => a[(i, j)] / w[i],
                _ => a[(i, j)],
            });
            plants.push(Some(pl));
            phi
        };
        states.push(State { phi, d, eval_fails: false, deriv_fails: None });
        alphas.push(DVector::from_fn(p, |q, _| {
            let (a, b) = small(q, 7 + st);
            T::var(&format!("alpha{st}_{q}"), a, b)
        }));
    }
    Inputs { n, m, s, p, w, y, eps, plants, states, alphas, twin: cfg.usize("twin", 0) == 1 }
}

pub fn wmat<T: HS>(inp: &Inputs<T>, i: usize) -> T {
    let w = inp.w.as_ref().map(|w| w[i]).unwrap_or(T::ratio(1, 1));
    // vacuity twin: a deliberately wrong specification (row 0 weighted with w_0 + 1) that must be refuted
    if inp.twin && i == 0 {
        w + T::ratio(1, 1)
    } else {
        w
    }
}

/// which singular values the truncated solve keeps on this path (sigma_j > eps_stored), decided on the
/// concrete shadow values WITHOUT recording a decision (the real code records the same comparisons)
pub fn kept<T: HS>(sigma: &DVector<T>, eps_stored: T) -> Vec<bool> {
    sigma.iter().map(|s| s.peek() > eps_stored.peek()).collect()
}

/// closed-form truncated least-squares solution from the planted factors
pub fn spec_coefficients<T: HS>(inp: &Inputs<T>, pl: &Plant<T>, keep: &[bool]) -> DMatrix<T> {
    let (n, m, s) = (inp.n, inp.m, inp.s);
    DMatrix::from_fn(m, s, |j, col| {
        let mut acc = T::ratio(0, 1);
        for l in 0..pl.sigma.len() {
            if keep[l] {
                let mut ub = T::ratio(0, 1);
                for i in 0..n {
                    ub = ub + pl.u[(i, l)] * (wmat(inp, i) * inp.y[(i, col)]);
                }
                acc = acc + pl.vt[(l, j)] * (ub / pl.sigma[l]);
            }
        }
        acc
    })
}

pub fn default_eps<T: HS>() -> T {
    <T as num_traits::Float>::epsilon()
}

/// All obligations about one problem in its current state `st`, given outputs read from the real code.
pub struct Observed<T: HS> {
    pub coeff: Option<DMatrix<T>>,
    pub resid: Option<DVector<T>>,
    pub jac: Option<DMatrix<T>>,
    pub wdata: DMatrix<T>,
    pub params: DVector<T>,
}

pub fn check_state<T: HS>(tag: &str, inp: &Inputs<T>, st: usize, eps_stored: T, obs: &Observed<T>, out: &mut Out<T>) {
    let (n, m, s, p) = (inp.n, inp.m, inp.s, inp.p);
    let zero = T::ratio(0, 1);
    let phi = &inp.states[st].phi;
    // spec-side matrices
    let a = DMatrix::from_fn(n, m, |i, j| wmat(inp, i) * phi[(i, j)]);
    let yw = DMatrix::from_fn(n, s, |i, j| wmat(inp, i) * inp.y[(i, j)]);
    out.eq_mat(&format!("C02.weighted_data{tag}"), "weighted_data", &obs.wdata, &yw);
    let (Some(c), Some(r)) = (&obs.coeff, &obs.resid) else {
        out.fact(&format!("C01.coefficients_present{tag}"), false, "coefficients/residuals absent although the model evaluates".into());
        return;
    };
    out.fact(&format!("C01.coefficients_present{tag}"), true, String::new());
    out.fact(&format!("C01.coefficient_shape{tag}"), c.shape() == (m, s), format!("{:?}", c.shape()));
    out.fact(&format!("C02.residual_len{tag}"), r.len() == n * s, format!("{}", r.len()));
    if c.shape() != (m, s) || r.len() != n * s {
        return;
    }
    // residual identity: r[s*n+i] = w_i y_is - sum_j (w_i phi_ij) c_js   (with the coefficients the problem reports)
    for col in 0..s {
        for i in 0..n {
            let mut fit = zero;
            for j in 0..m {
                fit = fit + a[(i, j)] * c[(j, col)];
            }
            out.eq(&format!("C02.residuals{tag}"), format!("r[{}]", col * n + i), r[col * n + i], yw[(i, col)] - fit);
        }
    }
    // coefficients.  The specification must not inherit the code's rank decisions: every obligation that depends on
    // which singular values count as non-zero carries that case as an explicit premise (`given`), and ALL cases are
    // emitted; the cases that contradict the path condition are vacuous, every other one has to be proved.
    let full_rank;
    if let Some(pl) = &inp.plants[st] {
        let shadow_keep = kept(&pl.sigma, eps_stored);
        full_rank = shadow_keep.iter().all(|k| *k) && n >= m;
        out.notes.push(format!("state {st}: kept singular values (shadow) {:?}", shadow_keep));
        let k = pl.sigma.len();
        for mask in 0..(1usize << k) {
            let keep: Vec<bool> = (0..k).map(|l| mask & (1 << l) != 0).collect();
            let label: String = keep.iter().map(|b| if *b { '1' } else { '0' }).collect();
            let name = format!("C01.closed_form{tag}[keep={label}]");
            for l in 0..k {
                out.given(&name, pl.sigma[l], if keep[l] { ">" } else { "<=" }, eps_stored);
            }
            let cs = spec_coefficients(inp, pl, &keep);
            out.eq_mat(&name, "C", c, &cs);
        }
        let keep = shadow_keep;
        // minimum norm / optimality in the retained subspace for the case of this run (premise: that case)
        for (l, kflag) in keep.iter().enumerate() {
            let name = if *kflag { format!("C01.retained_optimal{tag}") } else { format!("C01.min_norm{tag}") };
            for l2 in 0..keep.len() {
                out.given(&name, pl.sigma[l2], if keep[l2] { ">" } else { "<=" }, eps_stored);
            }
            if !*kflag {
                for col in 0..s {
                    let mut acc = zero;
                    for j in 0..m {
                        acc = acc + pl.vt[(l, j)] * c[(j, col)];
                    }
                    out.eq(&name, format!("v{l}.c{col}"), acc, zero);
                }
            } else {
                for col in 0..s {
                    let mut acc = zero;
                    for i in 0..n {
                        acc = acc + pl.u[(i, l)] * r[col * n + i];
                    }
                    out.eq(&name, format!("u{l}.r{col}"), acc, zero);
                }
            }
        }
    } else {
        // real-svd tier (M = 1): the single singular value is ||A||; premise of the two cases: ||A||^2 > eps^2 or <= eps^2
        let mut nrm2_t = zero;
        let mut nrm2 = 0.0;
        for i in 0..n {
            for j in 0..m {
                nrm2 += a[(i, j)].peek() * a[(i, j)].peek();
                nrm2_t = nrm2_t + a[(i, j)] * a[(i, j)];
            }
        }
        full_rank = m == 1 && nrm2.sqrt() > eps_stored.peek();
        if m == 1 {
            let name = format!("C01.min_norm{tag}");
            out.given(&name, nrm2_t, "<=", eps_stored * eps_stored);
            for col in 0..s {
                out.eq(&name, format!("c[0,{col}]"), c[(0, col)], zero);
            }
        }
    }
    // premises of the full-rank obligations (normal equations, Kaufman form, orthogonality)
    let full_rank_premise: Vec<(T, &'static str, T)> = match &inp.plants[st] {
        Some(pl) => pl.sigma.iter().map(|sg| (*sg, ">", eps_stored)).collect(),
        None => {
            let mut nrm2_t = zero;
            for i in 0..n {
                for j in 0..m {
                    nrm2_t = nrm2_t + a[(i, j)] * a[(i, j)];
                }
            }
            vec![(nrm2_t, ">", eps_stored * eps_stored)]
        }
    };
    let can_be_full_rank = n >= m && (inp.plants[st].is_some() || m == 1);
    let _ = full_rank;
    if can_be_full_rank {
        // normal equations  A^T (W y_s - A c_s) = 0  <=> c_s minimises ||W(y_s - Phi c)||
        let name = format!("C01.normal_eq{tag}");
        for (x, op, y) in &full_rank_premise {
            out.given(&name, *x, op, *y);
        }
        for col in 0..s {
            for j in 0..m {
                let mut acc = zero;
                for i in 0..n {
                    let mut fit = zero;
                    for l in 0..m {
                        fit = fit + a[(i, l)] * c[(l, col)];
                    }
                    acc = acc + a[(i, j)] * (yw[(i, col)] - fit);
                }
                out.eq(&name, format!("(A^T r)[{j},{col}]"), acc, zero);
            }
        }
    }
    let full_rank = can_be_full_rank;
    // Jacobian
    match &obs.jac {
        None => out.fact(&format!("C03.jacobian_present{tag}"), inp.states[st].deriv_fails.is_some(), "jacobian() is None although every derivative evaluates".into()),
        Some(jm) => {
            out.fact(&format!("C03.jacobian_none_on_deriv_failure{tag}"), inp.states[st].deriv_fails.is_none(), "jacobian() is Some although a partial derivative failed".into());
            out.fact(&format!("C03.jacobian_shape{tag}"), jm.shape() == (n * s, p), format!("{:?}", jm.shape()));
            if jm.shape() == (n * s, p) && inp.states[st].deriv_fails.is_none() {
                for k in 0..p {
                    let dk = &inp.states[st].d[k];
                    for col in 0..s {
                        // b = W D_k c_s
                        let b: Vec<T> = (0..n)
                            .map(|i| {
                                let mut acc = zero;
                                for j in 0..m {
                                    acc = acc + wmat(inp, i) * dk[(i, j)] * c[(j, col)];
                                }
                                acc
                            })
                            .collect();
                        if full_rank {
                            for nm in [format!("C03.orthogonal{tag}"), format!("C03.kaufman{tag}")] {
                                for (x, op, y) in &full_rank_premise {
                                    out.given(&nm, *x, op, *y);
                                }
                            }
                            // orthogonality to range(A)
                            for j in 0..m {
                                let mut acc = zero;
                                for i in 0..n {
                                    acc = acc + a[(i, j)] * jm[(col * n + i, k)];
                                }
                                out.eq(&format!("C03.orthogonal{tag}"), format!("(A^T J)[{j}; k={k}, s={col}]"), acc, zero);
                            }
                            if let Some(pl) = &inp.plants[st] {
                                // J = -(I - U U^T) b, U = planted orthonormal basis of range(A)
                                for i in 0..n {
                                    let mut proj = zero;
                                    for l in 0..pl.sigma.len() {
                                        let mut ub = zero;
                                        for i2 in 0..n {
                                            ub = ub + pl.u[(i2, l)] * b[i2];
                                        }
                                        proj = proj + pl.u[(i, l)] * ub;
                                    }
                                    out.eq(&format!("C03.kaufman{tag}"), format!("J[{},{}]", col * n + i, k), jm[(col * n + i, k)], proj - b[i]);
                                }
                            } else {
                                // M = 1, basis-free: J + b = a (a.b)/(a.a)  <=>  (J + b)(a.a) = a (a.b)
                                let (mut aa, mut ab) = (zero, zero);
                                for i in 0..n {
                                    aa = aa + a[(i, 0)] * a[(i, 0)];
                                    ab = ab + a[(i, 0)] * b[i];
                                }
                                for i in 0..n {
                                    out.eq(&format!("C03.kaufman{tag}"), format!("J[{},{}]", col * n + i, k), (jm[(col * n + i, k)] + b[i]) * aa, a[(i, 0)] * ab);
                                }
                            }
                        }
                    }
                }
            }
        }
    }
    let _ = obs.params.len();
}

macro_rules! obs_arg {
    (false, $y:expr) => {
        DVector::from_iterator($y.nrows(), $y.column(0).iter().cloned())
    };
    (true, $y:expr) => {
        $y.clone()
    };
}

macro_rules! core_variant {
    ($name:ident, $ctor:ident, $mrhs:tt, $par:tt) => {
        pub fn $name<T: HS>(cfg: &Cfg, out: &mut Out<T>) {
            let hist = cfg.usize("hist", 0);
            let nstates = match hist {
                0 => 1,
                _ => 2,
            };
            let mut inp = make_inputs::<T>(cfg, out, nstates);
            let (n, m, s, p) = (inp.n, inp.m, inp.s, inp.p);
            let _ = (n, m);
            let deriv_fail = cfg.opt_usize("deriv_fail");
            // script of the model
            let (script, final_state): (Vec<Step>, usize) = match hist {
                0 => (vec![Step::To(0)], 0),
                1 => (vec![Step::To(0), Step::To(1)], 1),
                // (vacuity twin: the model does NOT reject -- the C09 facts must then come out false)
                2 => (vec![Step::To(0), if cfg.usize("twin", 0) == 1 { Step::To(0) } else { Step::Reject }, Step::To(1)], 1),
                3 => {
                    inp.states[1].eval_fails = true;
                    (vec![Step::To(0), Step::To(1), Step::To(0)], 0)
                }
                // A -> B -> A: the parameters of the first state are applied again
                4 => (vec![Step::To(0), Step::To(1), Step::To(0)], 0),
                _ => panic!("unknown hist"),
            };
            if let Some(k) = deriv_fail {
                inp.states[final_state].deriv_fails = Some(k);
            }
            set_plants(&inp.plants);
            let model = StubModel { params: inp.alphas[0].clone(), states: inp.states.clone(), cur: 0, script: script.clone(), calls: 0, nparams: p };
            let mut b = LevMarProblemBuilder::$ctor(model);
            // order of the builder calls is a parameter (C18: must not matter)
            let order = cfg.usize("order", 0);
            let yarg = obs_arg!($mrhs, inp.y);
            macro_rules! apply {
                (0) => { b = b.observations(yarg.clone()); };
                (1) => { if let Some(w) = &inp.w { b = b.weights(w.clone()); } };
                (2) => { if let Some(e) = inp.eps { b = b.epsilon(e); } };
            }
            match order {
                0 => { apply!(0); apply!(1); apply!(2); }
                1 => { apply!(2); apply!(1); apply!(0); }
                2 => { apply!(1); apply!(0); apply!(2); }
                _ => {
                    // repeated calls: earlier values are overwritten
                    b = b.epsilon(T::ratio(7, 1));
                    b = b.weights(DVector::from_element(inp.n, T::ratio(3, 1)));
                    apply!(2); apply!(0); apply!(1);
                    if inp.eps.is_none() { out.notes.push("order=3 with default eps keeps the overwritten epsilon 7".into()); }
                }
            }
            let eps_expected: T = match (inp.eps, order) {
                (Some(e), _) => e.s_abs(),
                (None, 3) => T::ratio(7, 1),
                (None, _) => default_eps::<T>(),
            };
            let built = b.build();
            let mut problem = match built {
                Ok(p) => p,
                Err(e) => {
                    out.fact("C18.build_ok", false, format!("build() failed on consistent inputs: {e:?}"));
                    return;
                }
            };
            out.fact("C18.build_ok", true, String::new());
            #[cfg(verif_acc_eps)]
            {
                let eps_stored = varpro::solvers::levmar::verif_access::svd_epsilon(&problem);
                out.eq("C18.epsilon_abs", "svd_epsilon".into(), eps_stored, eps_expected);
            }
            // --- state right after build: C18 (starts at the model's alpha, residuals/coefficients present)
            let read = |problem: &LevMarProblem<StubModel<T>, $mrhs, $par>| -> Observed<T> {
                Observed {
                    coeff: problem.linear_coefficients().map(|c| DMatrix::from_iterator(c.nrows(), c.ncols(), c.iter().cloned())),
                    resid: problem.residuals(),
                    jac: problem.jacobian(),
                    wdata: { let d = problem.weighted_data(); DMatrix::from_iterator(d.nrows(), d.ncols(), d.iter().cloned()) },
                    params: problem.params(),
                }
            };
            let after_build = read(&problem);
            for q in 0..p {
                out.eq("C18.initial_params", format!("params[{q}]"), after_build.params[q], inp.alphas[0][q]);
            }
            out.fact("C18.initial_state_present", after_build.coeff.is_some() && after_build.resid.is_some(), "no residuals/coefficients after build".into());
            if hist == 0 {
                check_state("", &inp, 0, eps_expected, &after_build, out);
            } else {
                check_state("@build", &inp, 0, eps_expected, &after_build, out);
            }
            // --- history
            let mut last_alpha = inp.alphas[0].clone();
            if hist >= 1 {
                match hist {
                    1 => {
                        problem.set_params(&inp.alphas[1]);
                        last_alpha = inp.alphas[1].clone();
                    }
                    2 => {
                        // an update the model rejects: afterwards nothing may be attributed to the rejected alpha
                        let rejected = DVector::from_fn(p, |q, _| T::var(&format!("alphaR_{q}"), 11, 3 + q as i64));
                        problem.set_params(&rejected);
                        let o = read(&problem);
                        out.fact("C09.rejected_update_leaves_no_residuals", o.resid.is_none(), "residuals() is Some after the model rejected set_params".into());
                        out.fact("C09.rejected_update_leaves_no_coefficients", o.coeff.is_none(), "linear_coefficients() is Some after the model rejected set_params".into());
                        out.fact("C09.rejected_update_leaves_no_jacobian", o.jac.is_none(), "jacobian() is Some after the model rejected set_params".into());
                        problem.set_params(&inp.alphas[1]);
                        last_alpha = inp.alphas[1].clone();
                    }
                    4 => {
                        problem.set_params(&inp.alphas[1]);
                        problem.set_params(&inp.alphas[0]);
                        last_alpha = inp.alphas[0].clone();
                    }
                    3 => {
                        problem.set_params(&inp.alphas[1]);
                        let o = read(&problem);
                        out.fact("C09.failed_eval_leaves_no_residuals", o.resid.is_none(), "residuals() is Some after eval failed".into());
                        out.fact("C09.failed_eval_leaves_no_coefficients", o.coeff.is_none(), "linear_coefficients() is Some after eval failed".into());
                        out.fact("C09.failed_eval_leaves_no_jacobian", o.jac.is_none(), "jacobian() is Some after eval failed".into());
                        // the state at the failure: the parameters the (accepting) model was given, not an earlier vector
                        for q in 0..p {
                            out.eq("C09.params_at_the_failure", format!("params[{q}]"), o.params[q], inp.alphas[1][q]);
                        }
                        let back = DVector::from_fn(p, |q, _| T::var(&format!("alphaB_{q}"), 5, 2 + q as i64));
                        problem.set_params(&back);
                        last_alpha = back;
                    }
                    _ => {}
                }
                let o = read(&problem);
                check_state("", &inp, final_state, eps_expected, &o, out);
            }
            // --- params / repeat queries / fresh problem (C02, C10)
            let o1 = read(&problem);
            let o2 = read(&problem);
            for q in 0..p {
                out.eq("C02.params", format!("params[{q}]"), o1.params[q], last_alpha[q]);
            }
            if let (Some(a), Some(b2)) = (&o1.resid, &o2.resid) {
                out.eq_mat("C10.repeat_query", "residuals", &vec_to_mat(a), &vec_to_mat(b2));
            }
            if let (Some(a), Some(b2)) = (&o1.jac, &o2.jac) {
                out.eq_mat("C10.repeat_query", "jacobian", a, b2);
            }
            out.fact("C10.repeat_query_presence", o1.resid.is_some() == o2.resid.is_some() && o1.jac.is_some() == o2.jac.is_some(), "presence differs between two queries".into());
            if hist >= 1 {
                // a freshly built problem at the final state must report identical values
                // (vacuity twin: the "fresh" problem is built at the OTHER state -- must be refuted)
                let fresh_state = if inp.twin { 1 - final_state } else { final_state };
                let mut fst = inp.states[fresh_state].clone();
                fst.eval_fails = false;
                let fresh_model = StubModel { params: last_alpha.clone(), states: { let mut v = inp.states.clone(); v[fresh_state] = fst; v }, cur: fresh_state, script: vec![Step::To(fresh_state)], calls: 0, nparams: p };
                let mut fb = LevMarProblemBuilder::$ctor(fresh_model).observations(yarg.clone());
                if let Some(w) = &inp.w { fb = fb.weights(w.clone()); }
                if let Some(e) = inp.eps { fb = fb.epsilon(e); }
                if let Ok(fp) = fb.build() {
                    let of = read(&fp);
                    match (&o1.coeff, &of.coeff) { (Some(a), Some(b2)) => out.eq_mat("C10.fresh_equal", "coefficients", a, b2), (None, None) => {}, _ => out.fact("C10.fresh_presence", false, "coefficients present in one of (history, fresh) only".into()) }
                    match (&o1.resid, &of.resid) { (Some(a), Some(b2)) => out.eq_mat("C10.fresh_equal", "residuals", &vec_to_mat(a), &vec_to_mat(b2)), (None, None) => {}, _ => out.fact("C10.fresh_presence", false, "residuals present in one of (history, fresh) only".into()) }
                    match (&o1.jac, &of.jac) { (Some(a), Some(b2)) => out.eq_mat("C10.fresh_equal", "jacobian", a, b2), (None, None) => {}, _ => out.fact("C10.fresh_presence", false, "jacobian present in one of (history, fresh) only".into()) }
                }
            }
            // --- FitResult accessors on the final problem (C02: best fit = Phi * C, unweighted, in the shape of the data)
            let final_phi = inp.states[final_state].phi.clone();
            let seq = problem.into_sequential();
            let report = MinimizationReport { termination: TerminationReason::Converged { ftol: true, xtol: false }, number_of_evaluations: 1, objective_function: T::ratio(0, 1) };
            let fr = FitResult { problem: seq, minimization_report: report };
            let nl = fr.nonlinear_parameters();
            for q in 0..p {
                out.eq("C02.nonlinear_parameters", format!("alpha[{q}]"), nl[q], last_alpha[q]);
            }
            if let (Some(c), Some(bf)) = (o1.coeff.as_ref(), fr.best_fit()) {
                let bfm = DMatrix::from_iterator(bf.nrows(), bf.ncols(), bf.iter().cloned());
                let spec = DMatrix::from_fn(inp.n, s, |i, col| { let mut acc = T::ratio(0, 1); for j in 0..inp.m { acc = acc + final_phi[(i, j)] * c[(j, col)]; } acc });
                out.eq_mat("C02.best_fit", "best_fit", &bfm, &spec);
                if let Some(lc) = fr.linear_coefficients() {
                    let lcm = DMatrix::from_iterator(lc.nrows(), lc.ncols(), lc.iter().cloned());
                    out.eq_mat("C02.fitresult_coefficients", "coefficients", &lcm, c);
                }
            } else {
                out.fact("C02.best_fit_present", o1.coeff.is_none(), "best_fit() is None although coefficients exist".into());
            }
        }
    };
}

core_variant!(core_vec_seq, new, false, false);
core_variant!(core_mrhs_seq, mrhs, true, false);
core_variant!(core_vec_par, new_parallel, false, true);
core_variant!(core_mrhs_par, mrhs_parallel, true, true);

pub fn run<T: HS>(cfg: &Cfg, out: &mut Out<T>) {
    let mrhs = cfg.usize("mrhs", 0) == 1;
    let par = cfg.usize("par", 0) == 1;
    match (mrhs, par) {
        (false, false) => core_vec_seq::<T>(cfg, out),
        (true, false) => core_mrhs_seq::<T>(cfg, out),
        (false, true) => core_vec_par::<T>(cfg, out),
        (true, true) => core_mrhs_par::<T>(cfg, out),
    }
}
