//! Relational scenarios: two or more real problems in one arena whose outputs must coincide.
//!   relw    (C06): weighted problem vs. pre-scaled unweighted problem; unit weights vs. none; zero weight
//!   relmrhs (C07): S-column problem vs. S single-column problems; column permutation; 1-column MRHS vs vector API
//!   lin     (C01): coefficients depend linearly on the observations
use crate::hs::*;
use crate::scen_core::*;
use crate::stub::*;
use crate::Cfg;
use levenberg_marquardt::LeastSquaresProblem;
use nalgebra::{DMatrix, DVector};
use varpro::solvers::levmar::*;

pub struct Obs<T: HS> {
    pub c: Option<DMatrix<T>>,
    pub r: Option<DVector<T>>,
    pub j: Option<DMatrix<T>>,
}

fn model_of<T: HS>(phi: DMatrix<T>, d: Vec<DMatrix<T>>, alpha: DVector<T>) -> StubModel<T> {
    let p = d.len();
    StubModel { params: alpha, states: vec![State { phi, d, eval_fails: false, deriv_fails: None }], cur: 0, script: vec![Step::To(0)], calls: 0, nparams: p }
}

/// build a problem (flavour chosen by mrhs/par) and read coefficients, residuals, Jacobian
pub fn solve<T: HS>(mrhs: bool, par: bool, model: StubModel<T>, y: &DMatrix<T>, w: Option<&DVector<T>>, eps: Option<T>) -> Option<Obs<T>> {
    macro_rules! go {
        ($ctor:ident, $yarg:expr) => {{
            let mut b = LevMarProblemBuilder::$ctor(model).observations($yarg);
            if let Some(w) = w {
                b = b.weights(w.clone());
            }
            if let Some(e) = eps {
                b = b.epsilon(e);
            }
            let p = b.build().ok()?;
            Some(Obs { c: p.linear_coefficients().map(|c| DMatrix::from_iterator(c.nrows(), c.ncols(), c.iter().cloned())), r: p.residuals(), j: p.jacobian() })
        }};
    }
    let yv = || DVector::from_iterator(y.nrows(), y.column(0).iter().cloned());
    match (mrhs, par) {
        (false, false) => go!(new, yv()),
        (false, true) => go!(new_parallel, yv()),
        (true, false) => go!(mrhs, y.clone()),
        (true, true) => go!(mrhs_parallel, y.clone()),
    }
}

fn compare<T: HS>(name: &str, a: &Obs<T>, b: &Obs<T>, out: &mut Out<T>) {
    match (&a.c, &b.c) {
        (Some(x), Some(y)) => out.eq_mat(name, "coefficients", x, y),
        (None, None) => {}
        _ => out.fact(&format!("{name}:presence"), false, "coefficients present in only one of the two problems".into()),
    }
    match (&a.r, &b.r) {
        (Some(x), Some(y)) => out.eq_mat(name, "residuals", &vec_to_mat(x), &vec_to_mat(y)),
        (None, None) => {}
        _ => out.fact(&format!("{name}:presence"), false, "residuals present in only one of the two problems".into()),
    }
    match (&a.j, &b.j) {
        (Some(x), Some(y)) => out.eq_mat(name, "jacobian", x, y),
        (None, None) => {}
        _ => out.fact(&format!("{name}:presence"), false, "jacobian present in only one of the two problems".into()),
    }
}

pub fn relw<T: HS>(cfg: &Cfg, out: &mut Out<T>) {
    let kind = cfg.str("kind", "scale");
    let (mrhs, par) = (cfg.usize("mrhs", 0) == 1, cfg.usize("par", 0) == 1);
    let one = T::ratio(1, 1);
    match kind.as_str() {
        "scale" => {
            // P_w = (Phi, D, Y, w)   vs   P_1 = (w.Phi, w.D, w.Y, no weights)
            let inp = make_inputs::<T>(cfg, out, 1);
            set_plants(&inp.plants);
            let w = inp.w.clone().expect("relw needs w=diag");
            let st = &inp.states[0];
            let a = solve(mrhs, par, model_of(st.phi.clone(), st.d.clone(), inp.alphas[0].clone()), &inp.y, Some(&w), inp.eps);
            // (vacuity twin: row 0 scaled with w_0^2 -- a deliberately wrong partner problem that must be refuted)
            let twin = inp.twin;
            let scale = |m: &DMatrix<T>| DMatrix::from_fn(m.nrows(), m.ncols(), |i, j| if twin && i == 0 { w[i] * w[i] * m[(i, j)] } else { w[i] * m[(i, j)] });
            let b = solve(mrhs, par, model_of(scale(&st.phi), st.d.iter().map(|d| scale(d)).collect(), inp.alphas[0].clone()), &scale(&inp.y), None, inp.eps);
            match (a, b) {
                (Some(a), Some(b)) => {
                    out.fact("C06.scale_present", a.c.is_some() && b.c.is_some() && a.j.is_some() && b.j.is_some(), "a problem lacks coefficients/jacobian".into());
                    compare("C06.row_scaling", &a, &b, out)
                }
                _ => out.fact("C06.build_ok", false, "build failed".into()),
            }
        }
        "unit" => {
            // weights(1,...,1)  vs  no weights
            let mut c2 = Cfg(cfg.0.clone());
            c2.0.insert("w".into(), "none".into());
            let inp = make_inputs::<T>(&c2, out, 1);
            set_plants(&inp.plants);
            let st = &inp.states[0];
            let ones = DVector::from_element(inp.n, one);
            let a = solve(mrhs, par, model_of(st.phi.clone(), st.d.clone(), inp.alphas[0].clone()), &inp.y, Some(&ones), inp.eps);
            let b = solve(mrhs, par, model_of(st.phi.clone(), st.d.clone(), inp.alphas[0].clone()), &inp.y, None, inp.eps);
            match (a, b) {
                (Some(a), Some(b)) => {
                    out.fact("C06.unit_present", a.c.is_some() && b.c.is_some(), "a problem lacks coefficients".into());
                    compare("C06.unit_is_none", &a, &b, out)
                }
                _ => out.fact("C06.build_ok", false, "build failed".into()),
            }
        }
        "zero" => {
            // real-svd tier (M = 1): w_z = 0 removes the influence of sample z
            let mut c2 = Cfg(cfg.0.clone());
            if cfg.usize("m", 1) == 1 {
                c2.0.insert("real_svd".into(), "1".into());
                c2.0.insert("m".into(), "1".into());
            }
            let z = cfg.usize("zero_w", 1);
            c2.0.insert("zero_w".into(), z.to_string());
            let inp = make_inputs::<T>(&c2, out, 1);
            set_plants(&inp.plants);
            let st = &inp.states[0];
            let w = inp.w.clone().unwrap();
            let a = solve(mrhs, par, model_of(st.phi.clone(), st.d.clone(), inp.alphas[0].clone()), &inp.y, Some(&w), inp.eps);
            // a second problem whose row z (data, basis, derivatives) is entirely different
            let swap = |m: &DMatrix<T>, tag: &str| DMatrix::from_fn(m.nrows(), m.ncols(), |i, j| if i == z { T::var(&format!("{tag}_{j}"), 7 + j as i64, 3) } else { m[(i, j)] });
            let b = solve(mrhs, par, model_of(swap(&st.phi, "zphi"), st.d.iter().enumerate().map(|(k, d)| swap(d, &format!("zd{k}"))).collect(), inp.alphas[0].clone()), &swap(&inp.y, "zy"), Some(&w), inp.eps);
            match (a, b) {
                (Some(a), Some(b)) => {
                    out.fact("C06.zero_present", a.c.is_some() && b.c.is_some(), "a problem lacks coefficients".into());
                    compare("C06.zero_weight_removes_sample", &a, &b, out)
                }
                _ => out.fact("C06.build_ok", false, "build failed".into()),
            }
        }
        _ => panic!("relw kind"),
    }
}

pub fn relmrhs<T: HS>(cfg: &Cfg, out: &mut Out<T>) {
    let kind = cfg.str("kind", "columns");
    let par = cfg.usize("par", 0) == 1;
    let inp = make_inputs::<T>(cfg, out, 1);
    set_plants(&inp.plants);
    let st = &inp.states[0];
    let (n, s) = (inp.n, inp.s);
    let mk = || model_of(st.phi.clone(), st.d.clone(), inp.alphas[0].clone());
    let Some(full) = solve(true, par, mk(), &inp.y, inp.w.as_ref(), inp.eps) else {
        out.fact("C07.build_ok", false, "build failed".into());
        return;
    };
    let (Some(fc), Some(fr), Some(fj)) = (&full.c, &full.r, &full.j) else {
        out.fact("C07.present", false, "MRHS problem lacks coefficients/residuals/jacobian".into());
        return;
    };
    out.fact("C07.present", true, String::new());
    match kind.as_str() {
        "columns" | "one" => {
            // column s of C, block s of r and of every Jacobian column equal the single-column problem (vector API)
            for col in 0..s {
                // (vacuity twin: compare against the wrong column)
                let src = if inp.twin { (col + 1) % s } else { col };
                let ycol = DMatrix::from_fn(n, 1, |i, _| inp.y[(i, src)]);
                let Some(single) = solve(false, par, mk(), &ycol, inp.w.as_ref(), inp.eps) else { continue };
                if let Some(c) = &single.c {
                    out.fact("C07.single_shape", c.shape() == (inp.m, 1), format!("{:?}", c.shape()));
                    for j in 0..inp.m.min(c.nrows()) {
                        out.eq("C07.coefficient_column", format!("C[{j},{col}]"), fc[(j, col)], c[(j, 0)]);
                    }
                }
                if let Some(r) = &single.r {
                    for i in 0..n.min(r.len()) {
                        out.eq("C07.residual_block", format!("r[{}]", col * n + i), fr[col * n + i], r[i]);
                    }
                }
                if let Some(jm) = &single.j {
                    for k in 0..inp.p.min(jm.ncols()) {
                        for i in 0..n.min(jm.nrows()) {
                            out.eq("C07.jacobian_block", format!("J[{},{}]", col * n + i, k), fj[(col * n + i, k)], jm[(i, k)]);
                        }
                    }
                }
                out.fact("C07.single_present", single.c.is_some() && single.r.is_some() && single.j.is_some(), "single-column problem lacks outputs".into());
            }
        }
        "perm" => {
            // cyclic shift of the observation columns permutes coefficient columns and blocks
            let perm: Vec<usize> = (0..s).map(|c| (c + 1) % s).collect();
            let yp = DMatrix::from_fn(n, s, |i, c| inp.y[(i, perm[c])]);
            let Some(pp) = solve(true, par, mk(), &yp, inp.w.as_ref(), inp.eps) else { return };
            if let (Some(pc), Some(pr), Some(pj)) = (&pp.c, &pp.r, &pp.j) {
                for c in 0..s {
                    for j in 0..inp.m {
                        out.eq("C07.permutation", format!("C[{j},{c}]"), pc[(j, c)], fc[(j, perm[c])]);
                    }
                    for i in 0..n {
                        out.eq("C07.permutation", format!("r[{}]", c * n + i), pr[c * n + i], fr[perm[c] * n + i]);
                        for k in 0..inp.p {
                            out.eq("C07.permutation", format!("J[{},{}]", c * n + i, k), pj[(c * n + i, k)], fj[(perm[c] * n + i, k)]);
                        }
                    }
                }
            } else {
                out.fact("C07.perm_present", false, "permuted problem lacks outputs".into());
            }
        }
        "dup" => {
            // duplicated / linearly dependent columns: column 1 := 2 * column 0 must give doubled column-0 results
            let two = T::ratio(2, 1);
            let yd = DMatrix::from_fn(n, s, |i, c| if c == 1 { two * inp.y[(i, 0)] } else { inp.y[(i, c)] });
            let Some(dd) = solve(true, par, mk(), &yd, inp.w.as_ref(), inp.eps) else { return };
            if let (Some(dc), Some(dr)) = (&dd.c, &dd.r) {
                for j in 0..inp.m {
                    out.eq("C07.dependent_columns", format!("C[{j},1]"), dc[(j, 1)], two * dc[(j, 0)]);
                }
                for i in 0..n {
                    out.eq("C07.dependent_columns", format!("r[{}]", n + i), dr[n + i], two * dr[i]);
                }
            }
        }
        _ => panic!("relmrhs kind"),
    }
}

pub fn lin<T: HS>(cfg: &Cfg, out: &mut Out<T>) {
    // C(Y1 + lambda Y2) = C(Y1) + lambda C(Y2)
    let (mrhs, par) = (cfg.usize("mrhs", 0) == 1, cfg.usize("par", 0) == 1);
    let inp = make_inputs::<T>(cfg, out, 1);
    set_plants(&inp.plants);
    let st = &inp.states[0];
    let lam = T::var("lambda", 5, 3);
    let y2 = DMatrix::from_fn(inp.n, inp.s, |i, j| {
        let (a, b) = small(i + 2 * j, 9);
        T::var(&format!("z{i}_{j}"), a, b)
    });
    let y3 = DMatrix::from_fn(inp.n, inp.s, |i, j| inp.y[(i, j)] + lam * y2[(i, j)]);
    let mk = || model_of(st.phi.clone(), st.d.clone(), inp.alphas[0].clone());
    let (a, b, c) = (solve(mrhs, par, mk(), &inp.y, inp.w.as_ref(), inp.eps), solve(mrhs, par, mk(), &y2, inp.w.as_ref(), inp.eps), solve(mrhs, par, mk(), &y3, inp.w.as_ref(), inp.eps));
    if let (Some(Obs { c: Some(c1), .. }), Some(Obs { c: Some(c2), .. }), Some(Obs { c: Some(c3), .. })) = (a, b, c) {
        let spec = DMatrix::from_fn(c1.nrows(), c1.ncols(), |i, j| c1[(i, j)] + lam * c2[(i, j)]);
        out.eq_mat("C01.linear_in_observations", "C(Y1+lambda*Y2)", &c3, &spec);
    } else {
        out.fact("C01.lin_present", false, "coefficients absent".into());
    }
}

/// relpar (C11): the parallel flavour yields exactly what the sequential flavour yields, at construction,
/// after a further parameter update, and after conversion to the sequential type.
pub fn relpar<T: HS>(cfg: &Cfg, out: &mut Out<T>) {
    let mrhs = cfg.usize("mrhs", 0) == 1;
    let inp = make_inputs::<T>(cfg, out, 2);
    set_plants(&inp.plants);
    let p = inp.p;
    let deriv_fail = cfg.opt_usize("deriv_fail");
    let mk = || {
        let mut states = inp.states.clone();
        if let Some(k) = deriv_fail {
            states[1].deriv_fails = Some(k);
        }
        StubModel { params: inp.alphas[0].clone(), states, cur: 0, script: vec![Step::To(0), Step::To(1)], calls: 0, nparams: p }
    };
    macro_rules! both {
        ($seq:ident, $par:ident, $yarg:expr) => {{
            let build = |par: bool| -> (Option<Obs<T>>, Option<Obs<T>>, Option<Obs<T>>, DVector<T>) {
                macro_rules! run {
                    ($ctor:ident) => {{
                        let mut b = LevMarProblemBuilder::$ctor(mk()).observations($yarg);
                        if let Some(w) = &inp.w {
                            b = b.weights(w.clone());
                        }
                        if let Some(e) = inp.eps {
                            b = b.epsilon(e);
                        }
                        match b.build() {
                            Err(_) => (None, None, None, DVector::from_vec(vec![])),
                            Ok(mut pr) => {
                                let read = |pr: &dyn Fn() -> Obs<T>| pr();
                                let o0 = Obs { c: pr.linear_coefficients().map(|c| DMatrix::from_iterator(c.nrows(), c.ncols(), c.iter().cloned())), r: pr.residuals(), j: pr.jacobian() };
                                pr.set_params(&inp.alphas[1]);
                                let o1 = Obs { c: pr.linear_coefficients().map(|c| DMatrix::from_iterator(c.nrows(), c.ncols(), c.iter().cloned())), r: pr.residuals(), j: pr.jacobian() };
                                let params = pr.params();
                                let sq = pr.into_sequential();
                                let o2 = Obs { c: sq.linear_coefficients().map(|c| DMatrix::from_iterator(c.nrows(), c.ncols(), c.iter().cloned())), r: sq.residuals(), j: sq.jacobian() };
                                let _ = read;
                                (Some(o0), Some(o1), Some(o2), params)
                            }
                        }
                    }};
                }
                if par {
                    // install=1: the parallel flavour is driven from INSIDE a worker of a dedicated pool (rayon then splits the
                    // work differently from a call that is injected from outside: several columns per job)
                    if cfg.usize("install", 0) == 1 {
                        let pool = rayon::ThreadPoolBuilder::new().num_threads(cfg.usize("threads", 1).max(1)).build().expect("local rayon pool");
                        pool.install(|| run!($par))
                    } else {
                        run!($par)
                    }
                } else {
                    run!($seq)
                }
            };
            (build(false), build(true))
        }};
    }
    let yv = DVector::from_iterator(inp.n, inp.y.column(0).iter().cloned());
    let (s, q) = if mrhs { both!(mrhs, mrhs_parallel, inp.y.clone()) } else { both!(new, new_parallel, yv.clone()) };
    match (s, q) {
        ((Some(s0), Some(s1), Some(s2), sp), (Some(q0), Some(q1), Some(q2), qp)) => {
            compare("C11.parallel_equals_sequential@build", &q0, &s0, out);
            compare("C11.parallel_equals_sequential@update", &q1, &s1, out);
            compare("C11.into_sequential_preserves_state", &q2, &q1, out);
            compare("C11.into_sequential_preserves_state", &s2, &s1, out);
            out.fact("C11.presence", q1.c.is_some() == s1.c.is_some() && q1.j.is_some() == s1.j.is_some() && q0.j.is_some() == s0.j.is_some(), "presence of outputs differs between the flavours".into());
            out.fact("C11.expected_presence", s0.c.is_some() && s1.c.is_some() && (s1.j.is_some() == deriv_fail.is_none()), "unexpected presence pattern".into());
            for k in 0..p {
                out.eq("C11.params", format!("params[{k}]"), qp[k], sp[k]);
            }
        }
        _ => out.fact("C11.build_ok", false, "one of the flavours failed to build".into()),
    }
}
