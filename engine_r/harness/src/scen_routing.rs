//! Scenario `routing`: the real `SeparableModelBuilder::<T>` / `SeparableModel<T>` with user functions that
//! return uninterpreted terms.  A *program* (sequence of builder calls) is given as a string:
//!   P:a,b,c ; F:c,a:a,c ; I ; F:b:b ; D:a ; X ; XP ; XP:2
//!   F[@k][~len]:<function parameters>:<derivative names in the order supplied, each optionally @k / ~len>
//! Obligations: C16 (routing by name, derivative placement), C17 (misuse reported as errors, state intact),
//! C15 (acceptance matches the expectation passed by the driver; error kind among the allowed ones).
use crate::hs::*;
use crate::Cfg;
use nalgebra::DVector;
use varpro::model::builder::error::ModelBuildError;
use varpro::model::errors::ModelError;
use varpro::prelude::*;

/// length of a user function's output: Same (= len x), or a wrong one
#[derive(Clone, Copy, PartialEq, Debug)]
pub enum OutLen {
    Same,
    Minus1,
    Plus1,
    Empty,
    /// exactly one element (a "scalar" output), whatever the number of samples
    One,
    /// twice the number of samples
    Double,
}
fn parse_len(s: &str) -> OutLen {
    match s {
        "-1" => OutLen::Minus1,
        "+1" => OutLen::Plus1,
        "0" => OutLen::Empty,
        "1" => OutLen::One,
        "x2" => OutLen::Double,
        _ => OutLen::Same,
    }
}
fn actual_len(l: OutLen, n: usize) -> usize {
    match l {
        OutLen::Same => n,
        OutLen::Minus1 => n.saturating_sub(1),
        OutLen::Plus1 => n + 1,
        OutLen::Empty => 0,
        OutLen::One => 1,
        OutLen::Double => 2 * n,
    }
}

fn gen<T: HS>(tag: &str, x: &DVector<T>, args: &[T], l: OutLen) -> DVector<T> {
    let n = actual_len(l, x.len());
    DVector::from_fn(n, |i, _| {
        let xi = if i < x.len() { x[i] } else { x[0] };
        let mut a = vec![xi];
        a.extend_from_slice(args);
        T::ufun(tag, &a)
    })
}

/// expands `$b.$method($first, closure)` for closure arities 1..=10
macro_rules! with_arity {
    ($b:expr, $method:ident, $first:expr, $arity:expr, $tag:expr, $len:expr) => {{
        let tag: String = $tag;
        let l: OutLen = $len;
        match $arity {
            1 => $b.$method($first, move |x: &DVector<T>, a0: T| gen(&tag, x, &[a0], l)),
            2 => $b.$method($first, move |x: &DVector<T>, a0: T, a1: T| gen(&tag, x, &[a0, a1], l)),
            3 => $b.$method($first, move |x: &DVector<T>, a0: T, a1: T, a2: T| gen(&tag, x, &[a0, a1, a2], l)),
            4 => $b.$method($first, move |x: &DVector<T>, a0: T, a1: T, a2: T, a3: T| gen(&tag, x, &[a0, a1, a2, a3], l)),
            5 => $b.$method($first, move |x: &DVector<T>, a0: T, a1: T, a2: T, a3: T, a4: T| gen(&tag, x, &[a0, a1, a2, a3, a4], l)),
            6 => $b.$method($first, move |x: &DVector<T>, a0: T, a1: T, a2: T, a3: T, a4: T, a5: T| gen(&tag, x, &[a0, a1, a2, a3, a4, a5], l)),
            7 => $b.$method($first, move |x: &DVector<T>, a0: T, a1: T, a2: T, a3: T, a4: T, a5: T, a6: T| gen(&tag, x, &[a0, a1, a2, a3, a4, a5, a6], l)),
            8 => $b.$method($first, move |x: &DVector<T>, a0: T, a1: T, a2: T, a3: T, a4: T, a5: T, a6: T, a7: T| gen(&tag, x, &[a0, a1, a2, a3, a4, a5, a6, a7], l)),
            9 => $b.$method($first, move |x: &DVector<T>, a0: T, a1: T, a2: T, a3: T, a4: T, a5: T, a6: T, a7: T, a8: T| gen(&tag, x, &[a0, a1, a2, a3, a4, a5, a6, a7, a8], l)),
            10 => $b.$method($first, move |x: &DVector<T>, a0: T, a1: T, a2: T, a3: T, a4: T, a5: T, a6: T, a7: T, a8: T, a9: T| gen(&tag, x, &[a0, a1, a2, a3, a4, a5, a6, a7, a8, a9], l)),
            k => panic!("closure arity {k} not supported by the harness"),
        }
    }};
}

#[derive(Clone, Debug)]
struct DerivSpec {
    name: String,
    arity: Option<usize>,
    len: OutLen,
}
#[derive(Clone, Debug)]
enum Call {
    Func { params: Vec<String>, arity: usize, len: OutLen, derivs: Vec<DerivSpec> },
    Inv { len: OutLen },
    StrayDeriv { name: String },
    X,
    Init(Option<usize>),
}

fn split_mods(tok: &str) -> (String, Option<usize>, OutLen) {
    // name[@k][~len]
    let (rest, len) = match tok.split_once('~') {
        Some((a, b)) => (a.to_string(), parse_len(b)),
        None => (tok.to_string(), OutLen::Same),
    };
    let (name, ar) = match rest.split_once('@') {
        Some((a, b)) => (a.to_string(), b.parse().ok()),
        None => (rest, None),
    };
    (name, ar, len)
}

fn parse(prog: &str) -> (Vec<String>, Vec<Call>) {
    let mut names = vec![];
    let mut calls = vec![];
    for item in prog.split(';') {
        let item = item.trim();
        if item.is_empty() {
            continue;
        }
        let parts: Vec<&str> = item.split(':').collect();
        let (head, harity, hlen) = split_mods(parts[0]);
        let list = |s: &str| -> Vec<String> { if s.is_empty() { vec![] } else { s.split(',').map(|x| x.replace("%2C", ",")).collect() } };
        match head.as_str() {
            "P" => names = list(parts.get(1).copied().unwrap_or("")),
            "F" => {
                let params = list(parts.get(1).copied().unwrap_or(""));
                let derivs = list(parts.get(2).copied().unwrap_or(""))
                    .iter()
                    .map(|d| {
                        let (n, a, l) = split_mods(d);
                        DerivSpec { name: n, arity: a, len: l }
                    })
                    .collect();
                let arity = harity.unwrap_or(params.len());
                calls.push(Call::Func { params, arity, len: hlen, derivs });
            }
            "I" => calls.push(Call::Inv { len: hlen }),
            "D" => calls.push(Call::StrayDeriv { name: parts.get(1).copied().unwrap_or("").to_string() }),
            "X" => calls.push(Call::X),
            "XP" => calls.push(Call::Init(parts.get(1).and_then(|s| s.parse().ok()))),
            other => panic!("unknown program item {other}"),
        }
    }
    (names, calls)
}

fn kind(e: &ModelBuildError) -> &'static str {
    match e {
        ModelBuildError::DuplicateParameterNames { .. } => "DuplicateParameterNames",
        ModelBuildError::EmptyParameters => "EmptyParameters",
        ModelBuildError::FunctionParameterNotInModel { .. } => "FunctionParameterNotInModel",
        ModelBuildError::InvalidDerivative { .. } => "InvalidDerivative",
        ModelBuildError::DuplicateDerivative { .. } => "DuplicateDerivative",
        ModelBuildError::MissingDerivative { .. } => "MissingDerivative",
        ModelBuildError::EmptyModel => "EmptyModel",
        ModelBuildError::UnusedParameter { .. } => "UnusedParameter",
        ModelBuildError::IncorrectParameterCount { .. } => "IncorrectParameterCount",
        ModelBuildError::CommaInParameterNameNotAllowed { .. } => "CommaInParameterNameNotAllowed",
        ModelBuildError::MissingX => "MissingX",
        ModelBuildError::MissingInitialParameters => "MissingInitialParameters",
        ModelBuildError::IllegalCallToPartialDeriv => "IllegalCallToPartialDeriv",
        #[allow(unreachable_patterns)]
        _ => "Other",
    }
}

pub fn run<T: HS>(cfg: &Cfg, out: &mut Out<T>) {
    let prog = cfg.str("prog", "P:a;F:a:a;X;XP");
    let n = cfg.usize("n", 2);
    let (names, calls) = parse(&prog);
    let x = DVector::from_fn(n, |i, _| T::var(&format!("x{i}"), 1 + i as i64, 2));
    let pval = |tag: &str, name: &str, k: usize| T::var(&format!("{tag}_{}", name.replace(|c: char| !c.is_alphanumeric(), "_")), 2 + k as i64, 3);
    let p0: Vec<T> = names.iter().enumerate().map(|(k, nm)| pval("p", nm, k)).collect();
    // ---- drive the real builder
    let mut b = SeparableModelBuilder::<T>::new(names.clone());
    let mut fidx = 0usize;
    // function table for the oracle: per basis function (tag, params or None for invariant, len, derivs)
    struct FInfo {
        tag: String,
        params: Option<Vec<String>>,
        len: OutLen,
        derivs: Vec<DerivSpec>,
    }
    let mut finfo: Vec<FInfo> = vec![];
    for c in &calls {
        match c {
            Call::Func { params, arity, len, derivs } => {
                let tag = format!("f{fidx}");
                b = with_arity!(b, function, params.clone(), *arity, tag.clone(), *len);
                for d in derivs {
                    let dtag = format!("f{fidx}_d_{}", d.name.replace(|c: char| !c.is_alphanumeric(), "_"));
                    b = with_arity!(b, partial_deriv, d.name.clone(), d.arity.unwrap_or(*arity), dtag, d.len);
                }
                finfo.push(FInfo { tag, params: Some(params.clone()), len: *len, derivs: derivs.clone() });
                fidx += 1;
            }
            Call::Inv { len } => {
                let tag = format!("g{fidx}");
                let (t2, l) = (tag.clone(), *len);
                b = b.invariant_function(move |x: &DVector<T>| gen(&t2, x, &[], l));
                finfo.push(FInfo { tag, params: None, len: *len, derivs: vec![] });
                fidx += 1;
            }
            Call::StrayDeriv { name } => {
                b = with_arity!(b, partial_deriv, name.clone(), 1usize, format!("stray_{name}"), OutLen::Same);
            }
            Call::X => b = b.independent_variable(x.clone()),
            Call::Init(k) => {
                let len = k.unwrap_or(names.len());
                b = b.initial_parameters((0..len).map(|i| if i < p0.len() { p0[i] } else { T::ratio(1, 1) }).collect());
            }
        }
    }
    let built = b.build();
    // ---- C15: acceptance against the driver's reference predicate
    let expect_ok = cfg.usize("expect_ok", 1) == 1;
    let allowed = cfg.str("allowed", "");
    match &built {
        Ok(_) => out.fact("C15.accepts_iff_valid", expect_ok, format!("build() accepted an invalid specification: {prog}")),
        Err(e) => {
            out.fact("C15.accepts_iff_valid", !expect_ok, format!("build() rejected a valid specification with {}: {prog}", kind(e)));
            if !expect_ok {
                out.fact("C15.error_names_real_defect", allowed.split(',').any(|k| k == kind(e)), format!("error {} is not among the defects present ({allowed}): {prog}", kind(e)));
            }
        }
    }
    let Ok(mut model) = built else { return };
    if !expect_ok {
        return;
    }
    // ---- C16 routing
    let np = names.len();
    let nf = finfo.len();
    let any_bad_fn = finfo.iter().any(|f| f.len != OutLen::Same);
    let check_all = |model: &varpro::model::SeparableModel<T>, pv: &[T], phase: &str, out: &mut Out<T>| {
        // (vacuity twin: arguments in reversed order -- a deliberately wrong routing that must be refuted)
        let twin = cfg.usize("twin", 0) == 1;
        let args_of = |f: &FInfo| -> Vec<T> {
            let mut v: Vec<T> = f.params.as_ref().map(|ps| ps.iter().map(|nm| pv[names.iter().position(|x| x == nm).unwrap()]).collect()).unwrap_or_default();
            if twin {
                v.reverse();
            }
            v
        };
        let pr = model.params();
        out.fact(&format!("C16.params_len{phase}"), pr.len() == np, format!("{}", pr.len()));
        for k in 0..np.min(pr.len()) {
            out.eq(&format!("C16.params{phase}"), format!("params[{k}]"), pr[k], pv[k]);
        }
        match model.eval() {
            Ok(e) => {
                out.fact(&format!("C17.bad_function_length_is_error{phase}"), !any_bad_fn, "eval() is Ok although a basis function returned a vector of the wrong length".into());
                out.fact(&format!("C17.eval_shape{phase}"), e.shape() == (n, nf), format!("{:?} expected {:?}", e.shape(), (n, nf)));
                if e.shape() == (n, nf) && !any_bad_fn {
                    for (j, f) in finfo.iter().enumerate() {
                        let a = args_of(f);
                        for i in 0..n {
                            let mut full = vec![x[i]];
                            full.extend_from_slice(&a);
                            out.eq(&format!("C16.eval{phase}"), format!("eval[{i},{j}]"), e[(i, j)], T::ufun(&f.tag, &full));
                        }
                    }
                }
            }
            Err(err) => {
                let first_bad = finfo.iter().find(|f| f.len != OutLen::Same);
                match first_bad {
                    None => out.fact(&format!("C16.eval_ok{phase}"), false, format!("eval() failed: {err:?}")),
                    // (the property asks for an error value; which variant / payload is an implementation detail and only noted)
                    Some(f) => {
                        if err != (ModelError::UnexpectedFunctionOutput { expected_length: n, actual_length: actual_len(f.len, n) }) {
                            out.notes.push(format!("eval(): error value {err:?} differs from UnexpectedFunctionOutput{{{n}, {}}}", actual_len(f.len, n)));
                        }
                        out.fact(&format!("C17.bad_function_length_is_error_value{phase}"), true, String::new())
                    }
                }
            }
        }
        for k in 0..np {
            let nm = &names[k];
            // does a bad-length derivative get evaluated for parameter k ?
            let bad_d = finfo.iter().filter_map(|f| f.derivs.iter().find(|d| &d.name == nm && d.len != OutLen::Same)).next();
            match model.eval_partial_deriv(k) {
                Ok(dm) => {
                    out.fact(&format!("C17.bad_derivative_length_is_error{phase}"), bad_d.is_none(), format!("eval_partial_deriv({k}) is Ok although a derivative returned a vector of the wrong length"));
                    out.fact(&format!("C17.deriv_shape{phase}"), dm.shape() == (n, nf), format!("{:?}", dm.shape()));
                    if dm.shape() == (n, nf) && bad_d.is_none() {
                        for (j, f) in finfo.iter().enumerate() {
                            let depends = f.params.as_ref().map(|ps| ps.contains(nm)).unwrap_or(false);
                            let a = args_of(f);
                            for i in 0..n {
                                let want = if depends {
                                    let mut full = vec![x[i]];
                                    full.extend_from_slice(&a);
                                    T::ufun(&format!("{}_d_{}", f.tag, nm.replace(|c: char| !c.is_alphanumeric(), "_")), &full)
                                } else {
                                    T::ratio(0, 1)
                                };
                                out.eq(&format!("C16.deriv{phase}"), format!("d/d{nm}[{i},{j}]"), dm[(i, j)], want);
                            }
                        }
                    }
                }
                Err(err) => match bad_d {
                    None => out.fact(&format!("C16.deriv_ok{phase}"), false, format!("eval_partial_deriv({k}) failed: {err:?}")),
                    Some(d) => {
                        if err != (ModelError::UnexpectedFunctionOutput { expected_length: n, actual_length: actual_len(d.len, n) }) {
                            out.notes.push(format!("eval_partial_deriv({k}): error value {err:?} differs from UnexpectedFunctionOutput{{{n}, {}}}", actual_len(d.len, n)));
                        }
                        out.fact(&format!("C17.bad_derivative_length_is_error_value{phase}"), true, String::new())
                    }
                },
            }
        }
        // derivative index out of range
        for k in [np, np + 3] {
            let r = model.eval_partial_deriv(k);
            out.fact(&format!("C17.deriv_index_out_of_range{phase}"), r.is_err(), format!("eval_partial_deriv({k}) = {:?}", r.map(|_| "Ok")));
        }
    };
    check_all(&model, &p0, "", out);
    // ---- new parameters
    let q: Vec<T> = names.iter().enumerate().map(|(k, nm)| pval("q", nm, k + 3)).collect();
    let r = model.set_params(DVector::from_vec(q.clone()));
    out.fact("C16.set_params_ok", r.is_ok(), format!("{r:?}"));
    check_all(&model, &q, "@updated", out);
    // ---- C17: wrong parameter counts are rejected and leave the state intact
    for wrong in [np + 1, np.saturating_sub(1), 0, np + 7] {
        if wrong == np {
            continue;
        }
        let r = model.set_params(DVector::from_fn(wrong, |i, _| T::var(&format!("junk{i}"), 9, 2)));
        out.fact("C17.wrong_count_rejected", r.is_err(), format!("set_params(len {wrong}) = {r:?}"));
    }
    check_all(&model, &q, "@after_rejected", out);
}
