//! Native (f64 / f32) scenarios used for replaying findings of Engines K and M against the real build:
//!   nonfinite : a basis matrix / data / weights with a non-finite or extreme entry through build, set_params,
//!               fit_with_statistics (C08: must return, never panic, never hang -- the driver applies a watchdog)
//!   faultfit  : a complete build -> fit_with_statistics run with a model failure injected at call index k (C09)
use crate::hs::*;
use crate::Cfg;
use levenberg_marquardt::LeastSquaresProblem;
use nalgebra::{DMatrix, DVector, Dyn, OMatrix, OVector};
use std::cell::Cell;
use varpro::prelude::*;
use varpro::solvers::levmar::*;

#[derive(Debug)]
pub struct E;
impl std::fmt::Display for E {
    fn fmt(&self, _f: &mut std::fmt::Formatter<'_>) -> std::fmt::Result {
        Ok(())
    }
}
impl std::error::Error for E {}

/// exponential-decay style model  phi_ij = exp(-x_i * alpha_j) (j < P), last column constant; with an
/// optional poisoned entry and an optional failure at the k-th model call
pub struct NModel {
    pub x: DVector<f64>,
    pub alpha: DVector<f64>,
    pub poison: Option<(usize, usize, f64)>,
    pub calls: Cell<usize>,
    pub fail_at: Option<usize>,
    pub persistent: bool,
    pub log: std::cell::RefCell<Vec<&'static str>>,
}
impl NModel {
    fn tick(&self, what: &'static str) -> bool {
        let k = self.calls.get();
        self.calls.set(k + 1);
        self.log.borrow_mut().push(what);
        match self.fail_at {
            Some(f) => k == f || (self.persistent && k > f),
            None => false,
        }
    }
}
impl SeparableNonlinearModel for NModel {
    type ScalarType = f64;
    type Error = E;
    fn parameter_count(&self) -> usize {
        self.alpha.len()
    }
    fn base_function_count(&self) -> usize {
        self.alpha.len() + 1
    }
    fn output_len(&self) -> usize {
        self.x.len()
    }
    fn set_params(&mut self, p: OVector<f64, Dyn>) -> Result<(), E> {
        if self.tick("set_params") {
            return Err(E);
        }
        self.alpha = p;
        Ok(())
    }
    fn params(&self) -> OVector<f64, Dyn> {
        self.alpha.clone()
    }
    fn eval(&self) -> Result<OMatrix<f64, Dyn, Dyn>, E> {
        if self.tick("eval") {
            return Err(E);
        }
        let p = self.alpha.len();
        let mut m = DMatrix::from_fn(self.x.len(), p + 1, |i, j| if j < p { (-self.x[i] * self.alpha[j]).exp() } else { 1.0 });
        if let Some((i, j, v)) = self.poison {
            if i < m.nrows() && j < m.ncols() {
                m[(i, j)] = v;
            }
        }
        Ok(m)
    }
    fn eval_partial_deriv(&self, k: usize) -> Result<OMatrix<f64, Dyn, Dyn>, E> {
        if self.tick("deriv") {
            return Err(E);
        }
        let p = self.alpha.len();
        Ok(DMatrix::from_fn(self.x.len(), p + 1, |i, j| if j == k && j < p { -self.x[i] * (-self.x[i] * self.alpha[j]).exp() } else { 0.0 }))
    }
}

fn special(name: &str) -> f64 {
    match name {
        "nan" => f64::NAN,
        "inf" => f64::INFINITY,
        "ninf" => f64::NEG_INFINITY,
        "huge" => 1e308,
        "tiny" => 5e-324,
        "zero" => 0.0,
        _ => name.parse().unwrap_or(1.0),
    }
}

fn data(n: usize, p: usize) -> (DVector<f64>, DVector<f64>, DVector<f64>) {
    let x = DVector::from_fn(n, |i, _| 0.3 * i as f64);
    let truth: Vec<f64> = (0..p).map(|j| 0.6 + 1.1 * j as f64).collect();
    let y = DVector::from_fn(n, |i, _| {
        let mut v = 0.4;
        for (j, a) in truth.iter().enumerate() {
            v += (1.5 + j as f64) * (-x[i] * a).exp();
        }
        v + 0.01 * ((i * 7 % 5) as f64 - 2.0)
    });
    let start = DVector::from_fn(p, |j, _| truth[j] * 1.2 + 0.05);
    (x, y, start)
}

/// the same model without interior mutability (Sync: usable with the parallel problem flavour)
pub struct PlainModel {
    pub x: DVector<f64>,
    pub alpha: DVector<f64>,
    pub poison: Option<(usize, usize, f64)>,
}
impl SeparableNonlinearModel for PlainModel {
    type ScalarType = f64;
    type Error = E;
    fn parameter_count(&self) -> usize {
        self.alpha.len()
    }
    fn base_function_count(&self) -> usize {
        self.alpha.len() + 1
    }
    fn output_len(&self) -> usize {
        self.x.len()
    }
    fn set_params(&mut self, p: OVector<f64, Dyn>) -> Result<(), E> {
        self.alpha = p;
        Ok(())
    }
    fn params(&self) -> OVector<f64, Dyn> {
        self.alpha.clone()
    }
    fn eval(&self) -> Result<OMatrix<f64, Dyn, Dyn>, E> {
        let p = self.alpha.len();
        let mut m = DMatrix::from_fn(self.x.len(), p + 1, |i, j| if j < p { (-self.x[i] * self.alpha[j]).exp() } else { 1.0 });
        if let Some((i, j, v)) = self.poison {
            if i < m.nrows() && j < m.ncols() {
                m[(i, j)] = v;
            }
        }
        Ok(m)
    }
    fn eval_partial_deriv(&self, k: usize) -> Result<OMatrix<f64, Dyn, Dyn>, E> {
        let p = self.alpha.len();
        Ok(DMatrix::from_fn(self.x.len(), p + 1, |i, j| if j == k && j < p { -self.x[i] * (-self.x[i] * self.alpha[j]).exp() } else { 0.0 }))
    }
}

/// parallel flavour of `nonfinite` (cfg par=1)
fn nonfinite_par(cfg: &Cfg, out: &mut Out<f64>) {
    let (n, p) = (cfg.usize("n", 4), cfg.usize("p", 1));
    let (x, mut y, start) = data(n, p);
    let val = special(&cfg.str("val", "nan"));
    let wher = cfg.str("where", "phi");
    let (pi, pj) = (cfg.usize("i", 0), cfg.usize("j", 0));
    let mut w = DVector::from_fn(n, |i, _| 1.0 + 0.1 * i as f64);
    let mut alpha0 = start;
    let mut poison = None;
    match wher.as_str() {
        "phi" => poison = Some((pi, pj, val)),
        "y" => y[pi.min(n - 1)] = val,
        "w" => w[pi.min(n - 1)] = val,
        "alpha" => alpha0[pj.min(p - 1)] = val,
        _ => {}
    }
    let model = PlainModel { x, alpha: alpha0, poison };
    let mut b = LevMarProblemBuilder::new_parallel(model).observations(y);
    if cfg.usize("weights", 1) == 1 {
        b = b.weights(w);
    }
    let built = b.build();
    out.fact("C08.build_returns", true, String::new());
    let Ok(mut problem) = built else {
        return;
    };
    if wher == "phi" {
        out.fact("C08.nonfinite_state_rejected", problem.residuals().is_none() || val.is_finite(), "[parallel] residuals present for a non-finite basis matrix".into());
    }
    let pr = problem.params();
    problem.set_params(&pr);
    let _ = problem.jacobian();
    out.fact("C08.set_params_returns", true, String::new());
    let r = LevMarSolver::default().fit_with_statistics(problem);
    out.fact("C08.fit_returns", true, String::new());
    if wher == "phi" && !val.is_finite() {
        out.fact("C08.nonfinite_model_is_failed_fit", r.is_err(), "[parallel] fit_with_statistics returned Ok for a model with a non-finite basis matrix".into());
    }
}

pub fn nonfinite(cfg: &Cfg, out: &mut Out<f64>) {
    if cfg.usize("par", 0) == 1 {
        return nonfinite_par(cfg, out);
    }
    let (n, p) = (cfg.usize("n", 4), cfg.usize("p", 1));
    let (x, mut y, start) = data(n, p);
    let val = special(&cfg.str("val", "nan"));
    let wher = cfg.str("where", "phi");
    let (pi, pj) = (cfg.usize("i", 0), cfg.usize("j", 0));
    let mut w = DVector::from_fn(n, |i, _| 1.0 + 0.1 * i as f64);
    let mut alpha0 = start;
    let mut poison = None;
    match wher.as_str() {
        "phi" => poison = Some((pi, pj, val)),
        "y" => y[pi.min(n - 1)] = val,
        "w" => w[pi.min(n - 1)] = val,
        "alpha" => alpha0[pj.min(p - 1)] = val,
        _ => {}
    }
    let model = NModel { x, alpha: alpha0, poison, calls: Cell::new(0), fail_at: None, persistent: false, log: Default::default() };
    let mut b = LevMarProblemBuilder::new(model).observations(y);
    if cfg.usize("weights", 1) == 1 {
        b = b.weights(w);
    }
    let built = b.build();
    out.fact("C08.build_returns", true, String::new());
    let Ok(mut problem) = built else {
        return;
    };
    if wher == "phi" {
        out.fact("C08.nonfinite_state_rejected", problem.residuals().is_none() || val.is_finite(), "residuals present for a non-finite basis matrix".into());
    }
    let pr = problem.params();
    problem.set_params(&pr);
    out.fact("C08.set_params_returns", true, String::new());
    let r = LevMarSolver::default().fit_with_statistics(problem);
    out.fact("C08.fit_returns", true, String::new());
    if wher == "phi" && !val.is_finite() {
        out.fact("C08.nonfinite_model_is_failed_fit", r.is_err(), "fit_with_statistics returned Ok for a model with a non-finite basis matrix".into());
    }
}

/// a complete run with a failure injected at model call `k` (transient or persistent); C09 oracle
pub fn faultfit(cfg: &Cfg, out: &mut Out<f64>) {
    let (n, p) = (cfg.usize("n", 6), cfg.usize("p", 1));
    let k = cfg.opt_usize("k");
    let persistent = cfg.usize("persistent", 0) == 1;
    let (x, y, mut start) = data(n, p);
    // other starting points give other optimizer trajectories (rejected trial steps, termination right after one)
    let far = cfg.usize("far", 0);
    if far > 0 {
        start = start.map(|v| v * (1.0 + far as f64) + 0.3 * far as f64);
    }
    let model = NModel { x: x.clone(), alpha: start.clone(), poison: None, calls: Cell::new(0), fail_at: k, persistent, log: Default::default() };
    let built = LevMarProblemBuilder::new(model).observations(y.clone()).build();
    let Ok(problem) = built else {
        if k.is_none() {
            out.fact("C09.build_ok", false, "build failed".into());
        }
        return;
    };
    let (fr, ok) = match LevMarSolver::default().fit_with_statistics(problem) {
        Ok((fr, _st)) => (fr, true),
        Err(fr) => (fr, false),
    };
    let total_calls = fr.problem.model().calls.get();
    out.notes.push(format!("calls={total_calls} ok={ok} termination={:?} log={:?}", fr.minimization_report.termination, fr.problem.model().log.borrow().iter().take(60).collect::<Vec<_>>()));
    let hit = k.map(|k| k < total_calls).unwrap_or(false);
    if hit {
        out.fact("C09.fault_gives_err", !ok, format!("fit_with_statistics returned Ok although model call {k:?} failed"));
    } else {
        out.fact("C09.no_fault_gives_ok", ok, format!("fit failed without any injected failure: {:?}", fr.minimization_report.termination));
    }
    // whenever residuals / coefficients are present they are the correct ones for the reported parameters
    let alpha = fr.problem.params();
    let fresh_model = NModel { x, alpha: alpha.clone(), poison: None, calls: Cell::new(0), fail_at: None, persistent: false, log: Default::default() };
    let fresh = LevMarProblemBuilder::new(fresh_model).observations(y).build().unwrap();
    if let (Some(r), Some(rf)) = (fr.problem.residuals(), fresh.residuals()) {
        for i in 0..r.len() {
            out.eq("C09.present_residuals_match_reported_params", format!("r[{i}]"), r[i], rf[i]);
        }
    }
    if let (Some(c), Some(cf)) = (fr.problem.linear_coefficients(), fresh.linear_coefficients()) {
        for i in 0..c.len() {
            out.eq("C09.present_coefficients_match_reported_params", format!("c[{i}]"), c[i], cf[i]);
        }
    }
}

/// `faultfit` with a failure at EVERY model call index of the run (transient and persistent), in one process:
/// the fault-free run is executed first to count the calls.  Facts of failing cases are merged (prefixed with the case).
pub fn faultsweep(cfg: &Cfg, out: &mut Out<f64>) {
    let mut base = Out::<f64>::new();
    faultfit(cfg, &mut base);
    let total = base.notes.iter().find_map(|n| n.strip_prefix("calls=").and_then(|r| r.split(' ').next()).and_then(|v| v.parse::<usize>().ok())).unwrap_or(30);
    out.notes.push(format!("fault-free run: {total} model calls; {}", base.notes.first().map(|s| s.chars().take(120).collect::<String>()).unwrap_or_default()));
    for (n, h, d) in base.facts {
        out.fact(&n, h, d);
    }
    let mut cases = 0;
    for persistent in [0usize, 1] {
        for k in 0..=total {
            let mut c = Cfg(cfg.0.clone());
            c.0.insert("k".into(), k.to_string());
            c.0.insert("persistent".into(), persistent.to_string());
            let mut o = Out::<f64>::new();
            let r = std::panic::catch_unwind(std::panic::AssertUnwindSafe(|| faultfit(&c, &mut o)));
            cases += 1;
            if let Err(e) = r {
                let msg = e.downcast_ref::<String>().cloned().or_else(|| e.downcast_ref::<&str>().map(|s| s.to_string())).unwrap_or_default();
                out.fact("C09.no_panic_at_any_call_index", false, format!("panic with a model failure at call {k} (persistent={persistent}) of {total}: {msg}"));
                continue;
            }
            for (n, h, d) in o.facts {
                if !h {
                    out.fact(&n, false, format!("[failure at call {k}, persistent={persistent}] {d}"));
                }
            }
            for ob in o.obligations {
                for (l, a, b) in ob.eqs {
                    let (x, y): (f64, f64) = (a.parse().unwrap_or(f64::NAN), b.parse().unwrap_or(f64::NAN));
                    if !((x - y).abs() <= 1e-6 * (1.0 + x.abs().max(y.abs()))) {
                        out.fact(&ob.name, false, format!("[failure at call {k}, persistent={persistent}] {l}: {a} vs {b}"));
                    }
                }
            }
        }
    }
    out.fact("C09.no_panic_at_any_call_index", true, format!("{cases} cases"));
    out.notes.push(format!("cases={cases}"));
}

/// degenerate shapes with finite values (C08): N observations vs M = P+1 basis functions, N < M, N = M, N = 1, P = 0,
/// one and several right-hand sides, sequential and parallel flavour; every public step under catch_unwind and a
/// per-case watchdog (the whole grid runs in one process; the driver's timeout covers non-termination)
pub fn shapes(cfg: &Cfg, out: &mut Out<f64>) {
    let (nmax, pmax) = (cfg.usize("nmax", 5), cfg.usize("pmax", 3));
    let mut cases = 0;
    for n in 1..=nmax {
        for p in 0..=pmax {
            for flavour in 0..4usize {
                let (mrhs, par) = (flavour & 1 == 1, flavour & 2 == 2);
                for weighted in [false, true] {
                    cases += 1;
                    let tag = format!("N={n} P={p} M={} mrhs={mrhs} par={par} weights={weighted}", p + 1);
                    let r = std::panic::catch_unwind(std::panic::AssertUnwindSafe(|| {
                        let (x, y, start) = data(n, p);
                        let w = DVector::from_fn(n, |i, _| 1.0 + 0.25 * i as f64);
                        let ym = DMatrix::from_fn(n, 2, |i, j| y[i] * (1.0 + j as f64) + 0.1 * j as f64);
                        let model = PlainModel { x, alpha: start, poison: None };
                        macro_rules! drive {
                            ($b:expr) => {{
                                let mut b = $b;
                                if weighted {
                                    b = b.weights(w.clone());
                                }
                                if let Ok(mut problem) = b.build() {
                                    let _ = problem.residuals();
                                    let _ = problem.jacobian();
                                    let pr = problem.params();
                                    problem.set_params(&pr);
                                    let _ = problem.jacobian();
                                    let _ = problem.linear_coefficients();
                                    match LevMarSolver::default().fit(problem) {
                                        Ok(fr) => {
                                            let _ = fr.best_fit();
                                        }
                                        Err(fr) => {
                                            let _ = fr.best_fit();
                                        }
                                    }
                                }
                            }};
                        }
                        match (mrhs, par) {
                            (false, false) => drive!(LevMarProblemBuilder::new(model).observations(y.clone())),
                            (true, false) => drive!(LevMarProblemBuilder::mrhs(model).observations(ym.clone())),
                            (false, true) => drive!(LevMarProblemBuilder::new_parallel(model).observations(y.clone())),
                            (true, true) => drive!(LevMarProblemBuilder::mrhs_parallel(model).observations(ym.clone())),
                        }
                    }));
                    if let Err(e) = r {
                        let msg = e.downcast_ref::<String>().cloned().or_else(|| e.downcast_ref::<&str>().map(|s| s.to_string())).unwrap_or_default();
                        out.fact("C08.no_panic_on_degenerate_shapes", false, format!("{tag}: panic: {}", msg.chars().take(160).collect::<String>()));
                    }
                    if !mrhs {
                        // statistics (single right-hand side only)
                        let r = std::panic::catch_unwind(std::panic::AssertUnwindSafe(|| {
                            let (x, y, start) = data(n, p);
                            let model = PlainModel { x, alpha: start, poison: None };
                            let w = DVector::from_fn(n, |i, _| 1.0 + 0.25 * i as f64);
                            if par {
                                let mut b = LevMarProblemBuilder::new_parallel(model).observations(y);
                                if weighted {
                                    b = b.weights(w);
                                }
                                if let Ok(problem) = b.build() {
                                    if let Ok((_fr, st)) = LevMarSolver::default().fit_with_statistics(problem) {
                                        let _ = st.calculate_correlation_matrix();
                                        let _ = st.confidence_band_radius(0.9);
                                    }
                                }
                            } else {
                                let mut b = LevMarProblemBuilder::new(model).observations(y);
                                if weighted {
                                    b = b.weights(w);
                                }
                                if let Ok(problem) = b.build() {
                                    if let Ok((_fr, st)) = LevMarSolver::default().fit_with_statistics(problem) {
                                        let _ = st.calculate_correlation_matrix();
                                        let _ = st.confidence_band_radius(0.9);
                                    }
                                }
                            }
                        }));
                        if let Err(e) = r {
                            let msg = e.downcast_ref::<String>().cloned().or_else(|| e.downcast_ref::<&str>().map(|s| s.to_string())).unwrap_or_default();
                            out.fact("C08.no_panic_on_degenerate_shapes", false, format!("{tag} [fit_with_statistics]: panic: {}", msg.chars().take(160).collect::<String>()));
                        }
                    }
                }
            }
        }
    }
    out.fact("C08.no_panic_on_degenerate_shapes", true, format!("{cases} shape cases"));
    out.notes.push(format!("cases={cases}"));
}

/// the probability argument of the confidence band: everything outside the open interval (0, 1) panics (documented),
/// everything inside does not (C14; native replay of the Kani harness on the panic domain)
pub fn bandpanic(_cfg: &Cfg, out: &mut Out<f64>) {
    let (x, y, start) = data(8, 1);
    let model = PlainModel { x, alpha: start, poison: None };
    let problem = LevMarProblemBuilder::new(model).observations(y).build().unwrap();
    let Ok((_fr, st)) = LevMarSolver::default().fit_with_statistics(problem) else {
        out.notes.push("fit_with_statistics failed: nothing checked".into());
        return;
    };
    let prev = std::panic::take_hook();
    std::panic::set_hook(Box::new(|_| {}));
    for p in [0.0f64, -0.0, 1.0, -1.0, 2.0, 1.0 + f64::EPSILON, -f64::MIN_POSITIVE, f64::NAN, f64::INFINITY, f64::NEG_INFINITY] {
        let r = std::panic::catch_unwind(std::panic::AssertUnwindSafe(|| st.confidence_band_radius(p)));
        out.fact("C14.rejects_probability_outside_open_interval", r.is_err(), format!("confidence_band_radius({p:?}) returned normally"));
    }
    for p in [0.5f64, f64::MIN_POSITIVE, 1e-300, 1.0 - f64::EPSILON / 2.0, 0.999999] {
        let r = std::panic::catch_unwind(std::panic::AssertUnwindSafe(|| st.confidence_band_radius(p)));
        out.fact("C14.accepts_probability_inside_open_interval", r.is_ok(), format!("confidence_band_radius({p:?}) panicked"));
    }
    std::panic::set_hook(prev);
}

/// homogeneity in the observations at extreme scales (supplementary, native): with y replaced by s*y (s a power of two)
/// coefficients, residuals and the Jacobian must be s times the unscaled ones -- all three are linear in y and no
/// threshold of the library applies to them.  Intermediate quantities whose SQUARES leave the floating-point range
/// (norms) show up here; the real-arithmetic engine cannot see them.
pub fn scalecore(cfg: &Cfg, out: &mut Out<f64>) {
    let (n, p) = (cfg.usize("n", 6), cfg.usize("p", 2));
    for mrhs in [false, true] {
        for weighted in [false, true] {
            let run = |scale: f64| -> Option<(DMatrix<f64>, DVector<f64>, DMatrix<f64>)> {
                let (x, y, start) = data(n, p);
                let model = PlainModel { x, alpha: start, poison: None };
                let w = DVector::from_fn(n, |i, _| 0.5 + 0.25 * i as f64);
                if mrhs {
                    let ym = DMatrix::from_fn(n, 2, |i, j| (y[i] * (1.0 + j as f64) + 0.1 * j as f64) * scale);
                    let mut b = LevMarProblemBuilder::mrhs(model).observations(ym);
                    if weighted {
                        b = b.weights(w);
                    }
                    let pr = b.build().ok()?;
                    Some((pr.linear_coefficients()?.into_owned(), pr.residuals()?, pr.jacobian()?))
                } else {
                    let mut b = LevMarProblemBuilder::new(model).observations(y.map(|v| v * scale));
                    if weighted {
                        b = b.weights(w);
                    }
                    let pr = b.build().ok()?;
                    let c = pr.linear_coefficients()?;
                    Some((DMatrix::from_iterator(c.nrows(), c.ncols(), c.iter().cloned()), pr.residuals()?, pr.jacobian()?))
                }
            };
            let Some((c1, r1, j1)) = run(1.0) else {
                out.fact("C01.native.state_present", false, "no state at scale 1".into());
                continue;
            };
            for e in [-540i32, -300, 300, 500] {
                let s = 2f64.powi(e);
                let tag = format!("y scaled by 2^{e}, mrhs={mrhs}, weights={weighted}");
                let Some((c2, r2, j2)) = run(s) else {
                    out.fact("C01.native.homogeneous_in_y", false, format!("{tag}: no coefficients/residuals/Jacobian"));
                    continue;
                };
                let close = |a: f64, b: f64| (a * s - b).abs() <= 1e-9 * (a * s).abs().max(f64::MIN_POSITIVE * 1e6);
                let okc = c1.iter().zip(c2.iter()).all(|(a, b)| close(*a, *b));
                let okr = r1.iter().zip(r2.iter()).all(|(a, b)| close(*a, *b));
                let okj = j1.iter().zip(j2.iter()).all(|(a, b)| close(*a, *b));
                out.fact("C01.native.homogeneous_in_y", okc, format!("{tag}: coefficients are not 2^{e} times the unscaled ones: {:?} vs {:?}", c2.iter().take(3).collect::<Vec<_>>(), c1.iter().take(3).collect::<Vec<_>>()));
                out.fact("C02.native.homogeneous_in_y", okr, format!("{tag}: residuals are not 2^{e} times the unscaled ones"));
                out.fact("C03.native.homogeneous_in_y", okj, format!("{tag}: the Jacobian is not 2^{e} times the unscaled one: {:?} vs {:?}", j2.iter().take(3).collect::<Vec<_>>(), j1.iter().take(3).map(|v| v * s).collect::<Vec<_>>()));
            }
        }
    }
}

/// builder decision table on concrete sizes (native replay / path validation for Engine M, C18)
pub fn buildcase(cfg: &Cfg, out: &mut Out<f64>) {
    let (have_y, x, rows, cols) = (cfg.usize("have_y", 1) == 1, cfg.usize("x", 3), cfg.usize("rows", 3), cfg.usize("cols", 1));
    let (wdiag, wlen) = (cfg.usize("wdiag", 0) == 1, cfg.usize("wlen", 0));
    let par = cfg.usize("par", 0) == 1;
    let model = NModel { x: DVector::from_fn(x, |i, _| 0.25 * i as f64), alpha: DVector::from_vec(vec![0.7]), poison: None, calls: Cell::new(0), fail_at: None, persistent: false, log: Default::default() };
    let y = DMatrix::from_fn(rows, cols, |i, j| 1.0 + 0.1 * i as f64 + j as f64);
    let w = DVector::from_fn(wlen, |i, _| 1.0 + i as f64);
    // the requirements that are violated; an error must name one of them (which one is left to the implementation)
    let mut violated: Vec<&str> = vec![];
    if !have_y {
        violated.push("YDataMissing");
    } else {
        if x == 0 || rows * cols == 0 {
            violated.push("ZeroLengthVector");
        }
        if x != rows {
            violated.push("InvalidLengthOfData");
        }
        if wdiag && wlen != rows {
            violated.push("InvalidLengthOfWeights");
        }
    }
    let expected = if violated.is_empty() { "Ok".to_string() } else { violated.join("|") };
    macro_rules! go {
        ($ctor:ident) => {{
            let mut b = LevMarProblemBuilder::$ctor(model);
            if have_y {
                b = b.observations(y.clone());
            }
            if wdiag {
                b = b.weights(w.clone());
            }
            match b.build() {
                Ok(p) => ("Ok".to_string(), Some((p.params()[0], p.residuals().is_some(), p.model().calls.get()))),
                Err(e) => (format!("{e:?}"), None),
            }
        }};
    }
    let _ = par;
    let (got, info) = go!(mrhs);
    let got_kind = got.split(|c: char| !c.is_alphanumeric()).next().unwrap_or("").to_string();
    out.notes.push(format!("outcome={got_kind}"));
    out.fact("C18.decision_table", if violated.is_empty() { got_kind == "Ok" } else { violated.contains(&got_kind.as_str()) }, format!("build() gave {got} but the inputs (have_y={have_y}, x_len={x}, rows={rows}, cols={cols}, weights={wdiag}/{wlen}) call for {expected}"));
    if got_kind == "InvalidLengthOfData" {
        out.fact("C18.error_lengths", got.contains(&format!("x_length: {x}")) && got.contains(&format!("y_length: {rows}")), got.clone());
    }
    if let Some((p0, has_res, calls)) = info {
        out.fact("C18.starts_at_model_parameters", p0 == 0.7, format!("params()[0] = {p0}"));
        out.fact("C18.initial_state_present", has_res, "no residuals after build".into());
        let _ = calls; // (the number of model calls during build is an implementation detail, not part of the property)
    }
}

/// Ok/Err mapping of fit and fit_with_statistics on concrete tiny problems (native replay for Engine M, C04/C09/C12)
pub fn fitmap(cfg: &Cfg, out: &mut Out<f64>) {
    let with_stats = cfg.usize("stats", 0) == 1;
    // every termination reason of the optimizer: FitResult::was_successful must agree with the reason's own
    // notion of success (fit() maps exactly this to Ok / Err)
    {
        use levenberg_marquardt::{MinimizationReport, TerminationReason as TR};
        let reasons: Vec<TR> = vec![
            TR::User("x"), TR::Numerical("x"), TR::ResidualsZero, TR::Orthogonal,
            TR::Converged { ftol: true, xtol: false }, TR::Converged { ftol: false, xtol: true }, TR::Converged { ftol: true, xtol: true }, TR::Converged { ftol: false, xtol: false },
            TR::NoImprovementPossible("x"), TR::LostPatience, TR::NoParameters, TR::NoResiduals, TR::WrongDimensions("x"),
        ];
        for reason in reasons {
            let (x, y, start) = data(5, 1);
            let model = NModel { x, alpha: start, poison: None, calls: Cell::new(0), fail_at: None, persistent: false, log: Default::default() };
            let problem = LevMarProblemBuilder::new(model).observations(y).build().unwrap();
            let want = reason.was_successful();
            let txt = format!("{reason:?}");
            let fr = FitResult { problem, minimization_report: MinimizationReport { termination: reason, number_of_evaluations: 1, objective_function: 0.0 } };
            out.fact("C04.was_successful_agrees_with_termination_reason", fr.was_successful() == want, format!("FitResult::was_successful() = {} for {txt}", fr.was_successful()));
        }
        // the evaluation budget of the caller's configuration: a fit that loses patience is a failed fit
        let (x, y, start) = data(8, 2);
        let model = NModel { x, alpha: start.map(|v| v * 3.0), poison: None, calls: Cell::new(0), fail_at: None, persistent: false, log: Default::default() };
        let problem = LevMarProblemBuilder::new(model).observations(y).build().unwrap();
        let solver = LevMarSolver::with_solver(levenberg_marquardt::LevenbergMarquardt::new().with_patience(1));
        let r = if with_stats { solver.fit_with_statistics(problem).map(|(f, _)| f) } else { solver.fit(problem) };
        match r {
            Ok(fr) => out.fact("C04.ok_iff_successful", fr.minimization_report.termination.was_successful(), format!("patience 1: Ok with {:?}", fr.minimization_report.termination)),
            Err(fr) => {
                out.fact("C04.ok_iff_successful", !fr.minimization_report.termination.was_successful(), format!("patience 1: Err with {:?}", fr.minimization_report.termination));
                // "in both cases hands back the final problem": the model never failed, so the problem still has its state
                let r = fr.problem.residuals();
                out.fact("C04.err_returns_the_final_problem_with_its_state", r.is_some() && fr.linear_coefficients().is_some(), format!("patience 1: Err({:?}) but the returned problem has no residuals/coefficients", fr.minimization_report.termination));
                if let Some(r) = r {
                    let obj = 0.5 * r.norm_squared();
                    out.fact("C04.objective_is_half_squared_residual_norm", (obj - fr.minimization_report.objective_function).abs() <= 1e-9 * (1.0 + obj.abs()), format!("patience 1: {obj} vs {}", fr.minimization_report.objective_function));
                }
            }
        }
    }
    // (n, p, fail_at): converging fit, failing model, under-determined statistics
    for (n, p, fail_at) in [(6usize, 1usize, None), (6, 1, Some(1usize)), (6, 1, Some(4)), (3, 1, None), (2, 1, None), (8, 2, None)] {
        let (x, y, start) = data(n, p);
        let model = NModel { x, alpha: start.clone(), poison: None, calls: Cell::new(0), fail_at, persistent: true, log: Default::default() };
        let Ok(problem) = LevMarProblemBuilder::new(model).observations(y.clone()).build() else { continue };
        let tag = format!("n={n},p={p},fail_at={fail_at:?}");
        if with_stats {
            match LevMarSolver::default().fit_with_statistics(problem) {
                Ok((fr, st)) => {
                    out.fact("C12.ok_implies_successful", fr.was_successful(), format!("{tag}: Ok with {:?}", fr.minimization_report.termination));
                    out.fact("C12.ok_implies_determined", n > p + (p + 1), format!("{tag}: Ok although N <= M+P"));
                    out.fact("C09.ok_implies_no_fault", fail_at.is_none(), format!("{tag}: Ok although the model failed"));
                    let r = fr.problem.residuals();
                    out.fact("C12.weighted_residuals_are_final_residuals", r.map(|r| r == st.weighted_residuals()).unwrap_or(false), tag.clone());
                    out.fact("C04.result_params_are_problem_params", fr.nonlinear_parameters() == fr.problem.params(), tag.clone());
                }
                Err(fr) => {
                    let justified = !fr.was_successful() || fr.linear_coefficients().is_none() || n <= p + (p + 1) || fail_at.is_some();
                    out.fact("C12.err_is_justified", justified, format!("{tag}: Err({:?}) without reason", fr.minimization_report.termination));
                    out.fact("C04.result_params_are_problem_params", fr.nonlinear_parameters() == fr.problem.params(), tag.clone());
                }
            }
        } else {
            let before_y = problem.weighted_data().into_owned();
            let initial_objective = problem.residuals().map(|r| 0.5 * r.norm_squared());
            match LevMarSolver::default().fit(problem) {
                Ok(fr) => {
                    // (trusted invariants of the optimizer, observed here on a few fits only)
                    if let Some(o0) = initial_objective {
                        out.fact("C04.objective_not_larger_than_initial", fr.minimization_report.objective_function <= o0 * (1.0 + 1e-12), format!("{tag}: {} vs initial {o0}", fr.minimization_report.objective_function));
                    }
                    out.fact("C04.evaluations_within_budget", fr.minimization_report.number_of_evaluations <= 100 * (p + 1), format!("{tag}: {} evaluations", fr.minimization_report.number_of_evaluations));
                    out.fact("C04.ok_iff_successful", fr.was_successful(), format!("{tag}: Ok with {:?}", fr.minimization_report.termination));
                    out.fact("C09.ok_implies_no_fault", fail_at.is_none(), format!("{tag}: Ok although the model failed"));
                    out.fact("C04.returns_the_final_problem", fr.problem.weighted_data().into_owned() == before_y && fr.problem.residuals().is_some(), tag.clone());
                    let obj = fr.problem.residuals().map(|r| 0.5 * r.norm_squared()).unwrap_or(f64::NAN);
                    out.fact("C04.objective_is_half_squared_residual_norm", (obj - fr.minimization_report.objective_function).abs() <= 1e-9 * (1.0 + obj.abs()), format!("{tag}: {obj} vs {}", fr.minimization_report.objective_function));
                }
                Err(fr) => {
                    out.fact("C04.ok_iff_successful", !fr.was_successful(), format!("{tag}: Err with {:?}", fr.minimization_report.termination));
                    out.fact("C04.returns_the_final_problem", fr.problem.weighted_data().into_owned() == before_y, tag.clone());
                }
            }
        }
    }
}


/// two (nearly) collinear decays plus a constant; used for rank-deficient statistics through the public API
pub struct Collinear {
    pub x: DVector<f64>,
    pub alpha: DVector<f64>,
    pub gap: f64,
}
impl SeparableNonlinearModel for Collinear {
    type ScalarType = f64;
    type Error = E;
    fn parameter_count(&self) -> usize {
        1
    }
    fn base_function_count(&self) -> usize {
        3
    }
    fn output_len(&self) -> usize {
        self.x.len()
    }
    fn set_params(&mut self, p: OVector<f64, Dyn>) -> Result<(), E> {
        self.alpha = p;
        Ok(())
    }
    fn params(&self) -> OVector<f64, Dyn> {
        self.alpha.clone()
    }
    fn eval(&self) -> Result<OMatrix<f64, Dyn, Dyn>, E> {
        let a = self.alpha[0];
        Ok(DMatrix::from_fn(self.x.len(), 3, |i, j| match j {
            0 => (-self.x[i] * a).exp(),
            1 => (-self.x[i] * (a + self.gap)).exp(),
            _ => 1.0,
        }))
    }
    fn eval_partial_deriv(&self, _k: usize) -> Result<OMatrix<f64, Dyn, Dyn>, E> {
        let a = self.alpha[0];
        Ok(DMatrix::from_fn(self.x.len(), 3, |i, j| match j {
            0 => -self.x[i] * (-self.x[i] * a).exp(),
            1 => -self.x[i] * (-self.x[i] * (a + self.gap)).exp(),
            _ => 0.0,
        }))
    }
}

/// C12 through the public API only (no private accessors): defining identities of the statistics and the
/// N > M + P rule, on full-rank and on rank-deficient (truncated) problems, weighted and unweighted
pub fn statsfit(_cfg: &Cfg, out: &mut Out<f64>) {
    for (n, gap, eps, weighted) in [(12usize, 0.9, None, false), (12, 0.0, Some(1e-3), false), (9, 0.0, Some(1e-3), true), (5, 0.0, Some(1e-3), false), (4, 0.0, Some(1e-3), false), (4, 0.9, None, true), (6, 1e-9, None, false)] {
        let x = DVector::from_fn(n, |i, _| 0.2 * i as f64);
        let y = DVector::from_fn(n, |i, _| 1.3 * (-x[i] * 0.8).exp() + 0.4 + 0.02 * (((i * 5) % 7) as f64 - 3.0));
        let w = DVector::from_fn(n, |i, _| 0.5 + 0.25 * (i % 3) as f64);
        let model = Collinear { x, alpha: DVector::from_vec(vec![0.7]), gap };
        let mut b = LevMarProblemBuilder::new(model).observations(y);
        if weighted {
            b = b.weights(w);
        }
        if let Some(e) = eps {
            b = b.epsilon(e);
        }
        let Ok(problem) = b.build() else { continue };
        let (m, p) = (3usize, 1usize);
        let tag = format!("n={n},gap={gap},eps={eps:?},weighted={weighted}");
        match LevMarSolver::default().fit_with_statistics(problem) {
            Ok((fr, st)) => {
                out.fact("C12.native.ok_implies_determined", n > m + p, format!("{tag}: Ok although N <= M+P"));
                if n > m + p {
                    let r = st.weighted_residuals();
                    let final_r = fr.problem.residuals();
                    out.fact("C12.native.weighted_residuals_are_final_residuals", final_r.map(|fr_| (fr_ - &r).norm() <= 1e-9 * (1.0 + r.norm())).unwrap_or(false), tag.clone());
                    let want = r.norm_squared() / (n - m - p) as f64;
                    out.fact("C12.native.reduced_chi2", (st.reduced_chi2() - want).abs() <= 1e-9 * (1e-300 + want.abs()), format!("{tag}: reduced chi2 {} but ||r||^2/(N-M-P) = {want}", st.reduced_chi2()));
                    let rse = st.regression_standard_error();
                    out.fact("C12.native.regression_standard_error", (rse * rse - st.reduced_chi2()).abs() <= 1e-9 * (1e-300 + want.abs()), format!("{tag}: rse {rse}"));
                }
            }
            Err(fr) => {
                // an Err is admissible for a failed fit, N <= M+P, or a singular normal matrix (rank-deficient cases)
                let _ = fr;
            }
        }
    }
    // a perfect fit: constant data, one basis function exp(a x) started at a = 0 (the weighted residuals are exactly zero and
    // the optimizer stops with ResidualsZero): reduced chi^2 = 0 / (N-M-P) = 0 and the standard error is 0, both finite
    for weighted in [false, true] {
        let n = 8usize;
        let x = DVector::from_fn(n, |i, _| 0.25 * i as f64);
        let y = DVector::from_element(n, 2.0);
        let model = OneExp { x, a: 0.0 };
        let mut b = LevMarProblemBuilder::new(model).observations(y);
        if weighted {
            b = b.weights(DVector::from_element(n, 0.5));
        }
        let Ok(problem) = b.build() else { continue };
        if let Ok((fr, st)) = LevMarSolver::default().fit_with_statistics(problem) {
            let r = st.weighted_residuals();
            let want = r.norm_squared() / (n - 2) as f64;
            let tag = format!("perfect fit (termination {:?}, weights={weighted})", fr.minimization_report.termination);
            out.fact("C12.native.reduced_chi2", st.reduced_chi2() == want || (st.reduced_chi2() - want).abs() <= 1e-9 * want.abs(), format!("{tag}: reduced chi2 {} but ||r||^2/(N-M-P) = {want}", st.reduced_chi2()));
            let rse = st.regression_standard_error();
            out.fact("C12.native.regression_standard_error", rse == want.sqrt() || (rse - want.sqrt()).abs() <= 1e-9 * want.sqrt(), format!("{tag}: standard error {rse} but sqrt(reduced chi2) = {}", want.sqrt()));
        }
    }
}

/// one basis function exp(a x): a single nonlinear parameter, a single coefficient
pub struct OneExp {
    pub x: DVector<f64>,
    pub a: f64,
}
impl SeparableNonlinearModel for OneExp {
    type ScalarType = f64;
    type Error = E;
    fn parameter_count(&self) -> usize {
        1
    }
    fn base_function_count(&self) -> usize {
        1
    }
    fn output_len(&self) -> usize {
        self.x.len()
    }
    fn set_params(&mut self, p: OVector<f64, Dyn>) -> Result<(), E> {
        self.a = p[0];
        Ok(())
    }
    fn params(&self) -> OVector<f64, Dyn> {
        DVector::from_vec(vec![self.a])
    }
    fn eval(&self) -> Result<OMatrix<f64, Dyn, Dyn>, E> {
        Ok(DMatrix::from_fn(self.x.len(), 1, |i, _| (self.a * self.x[i]).exp()))
    }
    fn eval_partial_deriv(&self, _k: usize) -> Result<OMatrix<f64, Dyn, Dyn>, E> {
        Ok(DMatrix::from_fn(self.x.len(), 1, |i, _| self.x[i] * (self.a * self.x[i]).exp()))
    }
}
