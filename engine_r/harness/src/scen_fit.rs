//! Scenario `symfit`: the real `LevMarSolver::fit` -- i.e. the real Levenberg-Marquardt driver of the
//! `levenberg-marquardt` crate calling the real `set_params` / `residuals` / `jacobian` of varpro -- is executed on a
//! model that is a genuine function of alpha (affine: Phi(alpha) = A + sum_k alpha_k B_k, symbolic A, B_k), with the
//! real nalgebra SVD (one basis function) and a small evaluation budget.  One run = one path through optimizer and
//! library; the values of observations, weights, A, B_k, the initial guess are universally quantified on that path.
//! Obligations (C04, C09, C02): Ok <=> successful termination; the returned problem is at the reported alpha; its
//! coefficients / residuals are the closed forms for that alpha; objective = 1/2 ||r||^2; objective <= objective at
//! the initial guess; evaluations within patience*(P+1).
use crate::hs::*;
use crate::scen_core::small;
use crate::Cfg;
use levenberg_marquardt::{LeastSquaresProblem, LevenbergMarquardt};
use nalgebra::{DMatrix, DVector, Dyn, OMatrix, OVector};
use std::sync::atomic::{AtomicUsize, Ordering};
use std::sync::Arc;
use varpro::prelude::*;
use varpro::solvers::levmar::*;

#[derive(Debug, Clone, PartialEq)]
pub struct AffErr(pub &'static str);
impl std::fmt::Display for AffErr {
    fn fmt(&self, f: &mut std::fmt::Formatter<'_>) -> std::fmt::Result {
        write!(f, "affine model error {}", self.0)
    }
}
impl std::error::Error for AffErr {}

/// Phi(alpha) = A + sum_k alpha_k B_k ;  dPhi/dalpha_k = B_k
#[derive(Clone)]
pub struct AffineModel<T: HS> {
    pub params: DVector<T>,
    pub a: DMatrix<T>,
    pub b: Vec<DMatrix<T>>,
    /// shared call counter (set_params, eval and eval_partial_deriv calls in order)
    pub calls: Arc<AtomicUsize>,
    pub evals: Arc<AtomicUsize>,
    /// model call index at which the model fails (persistently from then on if `persistent`)
    pub fail_at: Option<usize>,
    pub persistent: bool,
    pub failed: Arc<AtomicUsize>,
}
impl<T: HS> AffineModel<T> {
    fn tick(&self) -> bool {
        let k = self.calls.fetch_add(1, Ordering::SeqCst);
        let fail = match self.fail_at {
            Some(f) => k == f || (self.persistent && k > f),
            None => false,
        };
        if fail {
            self.failed.fetch_add(1, Ordering::SeqCst);
        }
        fail
    }
    pub fn phi_at(&self, alpha: &DVector<T>) -> DMatrix<T> {
        let mut m = self.a.clone();
        for (k, bk) in self.b.iter().enumerate() {
            m = DMatrix::from_fn(m.nrows(), m.ncols(), |i, j| m[(i, j)] + alpha[k] * bk[(i, j)]);
        }
        m
    }
}
impl<T: HS> SeparableNonlinearModel for AffineModel<T> {
    type ScalarType = T;
    type Error = AffErr;
    fn parameter_count(&self) -> usize {
        self.b.len()
    }
    fn base_function_count(&self) -> usize {
        self.a.ncols()
    }
    fn output_len(&self) -> usize {
        self.a.nrows()
    }
    fn set_params(&mut self, p: OVector<T, Dyn>) -> Result<(), AffErr> {
        if self.tick() {
            return Err(AffErr("set_params"));
        }
        self.params = p;
        Ok(())
    }
    fn params(&self) -> OVector<T, Dyn> {
        self.params.clone()
    }
    fn eval(&self) -> Result<OMatrix<T, Dyn, Dyn>, AffErr> {
        self.evals.fetch_add(1, Ordering::SeqCst);
        if self.tick() {
            return Err(AffErr("eval"));
        }
        Ok(self.phi_at(&self.params))
    }
    fn eval_partial_deriv(&self, k: usize) -> Result<OMatrix<T, Dyn, Dyn>, AffErr> {
        if self.tick() {
            return Err(AffErr("deriv"));
        }
        Ok(self.b[k].clone())
    }
}

pub fn run<T: HS>(cfg: &Cfg, out: &mut Out<T>) {
    let (n, m, p) = (cfg.usize("n", 3), cfg.usize("m", 1), cfg.usize("p", 1));
    let patience = cfg.usize("patience", 1);
    let wkind = cfg.str("w", "diag");
    let fail_at = cfg.opt_usize("fail_at");
    let persistent = cfg.usize("persistent", 0) == 1;
    let twin = cfg.usize("twin", 0) == 1;
    let salt = cfg.usize("salt", 0) * 13;
    // obligations are filed under C09 when a model failure is injected, under C04 otherwise
    let pre = if fail_at.is_some() { "C09" } else { "C04" };
    let zero = T::ratio(0, 1);
    let half = T::ratio(1, 2);
    let w: Option<DVector<T>> = match wkind.as_str() {
        "none" => None,
        _ => Some(DVector::from_fn(n, |i, _| {
            let (a, b) = small(i, 1 + salt);
            T::var(&format!("w{i}"), a, b)
        })),
    };
    let y = DVector::from_fn(n, |i, _| {
        let (a, b) = small(i, 2 + salt);
        T::var(&format!("y{i}"), a, b)
    });
    let a = DMatrix::from_fn(n, m, |i, j| {
        let (x, d) = small(i * m + j, 5 + salt);
        T::var(&format!("a_{i}_{j}"), x, d)
    });
    let b: Vec<DMatrix<T>> = (0..p)
        .map(|k| {
            DMatrix::from_fn(n, m, |i, j| {
                let (x, d) = small(i * m + j + 7 * k, 6 + salt);
                T::var(&format!("b{k}_{i}_{j}"), x, d)
            })
        })
        .collect();
    let alpha0 = DVector::from_fn(p, |k, _| {
        let (x, d) = small(k, 7 + salt);
        T::var(&format!("alpha0_{k}"), x, d)
    });
    let calls = Arc::new(AtomicUsize::new(0));
    let evals = Arc::new(AtomicUsize::new(0));
    let failed = Arc::new(AtomicUsize::new(0));
    let model = AffineModel { params: alpha0.clone(), a: a.clone(), b: b.clone(), calls: calls.clone(), evals: evals.clone(), fail_at, persistent, failed: failed.clone() };
    let spec_model = model.clone();
    let mut bld = LevMarProblemBuilder::new(model).observations(y.clone());
    if let Some(w) = &w {
        bld = bld.weights(w.clone());
    }
    let problem = match bld.build() {
        Ok(p) => p,
        Err(e) => {
            out.fact("C18.build_ok", false, format!("build() failed on consistent inputs: {e:?}"));
            return;
        }
    };
    let wi = |i: usize| w.as_ref().map(|w| w[i]).unwrap_or(T::ratio(1, 1));
    // objective at the initial guess (from the problem as built)
    let r0 = problem.residuals();
    let obj0 = r0.as_ref().map(|r| {
        let mut acc = zero;
        for i in 0..r.nrows() {
            acc = acc + r[i] * r[i];
        }
        acc * half
    });
    let calls_before_fit = calls.load(Ordering::SeqCst);
    let evals_before_fit = evals.load(Ordering::SeqCst);
    let solver = LevMarSolver::with_solver(LevenbergMarquardt::new().with_patience(patience));
    let res = solver.fit(problem);
    let (ok, fr) = match res {
        Ok(fr) => (true, fr),
        Err(fr) => (false, fr),
    };
    let term = &fr.minimization_report.termination;
    let term_ok = term.was_successful();
    let term_txt = format!("{:?}", term);
    out.notes.push(format!("termination {}, evaluations {}, model calls {}, ok {}", term_txt, fr.minimization_report.number_of_evaluations, calls.load(Ordering::SeqCst) - calls_before_fit, ok));
    out.fact("C04.ok_iff_successful", ok == term_ok, format!("fit returned {} with {}", if ok { "Ok" } else { "Err" }, term_txt));
    out.fact("C04.was_successful_accessor", fr.was_successful() == term_ok, term_txt.clone());
    let budget = patience * (p + 1);
    out.fact("C04.evaluations_within_budget", fr.minimization_report.number_of_evaluations <= budget, format!("{} evaluations reported, budget {budget}", fr.minimization_report.number_of_evaluations));
    // the model is evaluated once per residual evaluation of the optimizer (plus once for the final re-application)
    let model_evals = evals.load(Ordering::SeqCst) - evals_before_fit;
    out.fact("C04.model_evaluations_within_budget", model_evals <= budget + 1, format!("{model_evals} model evaluations during fit, budget {budget} (+1)"));
    let hit = failed.load(Ordering::SeqCst) > 0;
    if hit {
        out.fact("C09.failure_gives_err", !ok, format!("fit returned Ok although a model call failed ({})", term_txt));
    }
    // ---- the returned state
    let alpha_hat = fr.nonlinear_parameters();
    let pp = fr.problem.params();
    for k in 0..p {
        out.eq(&format!("{pre}.params_are_reported_alpha"), format!("alpha[{k}]"), pp[k], alpha_hat[k]);
        // everything claimed about the returned state holds for EVERY alpha-hat: the solver may forget how the
        // optimizer computed it
        out.cut(alpha_hat[k]);
    }
    let resid = fr.problem.residuals();
    let coeff = fr.linear_coefficients().map(|c| DMatrix::from_iterator(c.nrows(), c.ncols(), c.iter().cloned()));
    if ok {
        out.fact("C04.successful_result_has_state", resid.is_some() && coeff.is_some(), "Ok without residuals/coefficients".into());
    }
    out.fact("C09.presence_consistent", resid.is_some() == coeff.is_some(), "residuals and coefficients: only one of them present".into());
    if let (Some(r), Some(c)) = (&resid, &coeff) {
        // specification at alpha_hat (one basis function: closed form of the weighted least-squares problem)
        let phi = spec_model.phi_at(&alpha_hat);
        let wphi = DMatrix::from_fn(n, m, |i, j| wi(i) * phi[(i, j)]);
        let wy = DVector::from_fn(n, |i, _| (if twin && i == 0 { wi(i) + T::ratio(1, 1) } else { wi(i) }) * y[i]);
        // what the library hands to the SVD / projects are the weighted matrix and the weighted data: for the algebra of
        // the solve their inside (w_i * phi_i(alpha)) is irrelevant
        if m == 1 {
            let mut num = zero;
            let mut den = zero;
            for i in 0..n {
                num = num + wphi[(i, 0)] * wy[i];
                den = den + wphi[(i, 0)] * wphi[(i, 0)];
            }
            let eps = <T as num_traits::Float>::epsilon();
            // rank cases as premises: sigma^2 > eps^2  <=>  sigma > eps  (sigma >= 0)
            let (nf, nd) = (format!("{pre}.coefficients_optimal[full]"), format!("{pre}.coefficients_optimal[deficient]"));
            out.eq(&nf, "c[0]*sum (w phi)^2".into(), c[(0, 0)] * den, num);
            out.given(&nf, den, ">", eps * eps);
            out.eq(&nd, "c[0]".into(), c[(0, 0)], zero);
            out.given(&nd, den, "<=", eps * eps);
            for i in 0..n {
                for nm in [&nf, &nd] {
                    out.cut_for(nm, wphi[(i, 0)]);
                    if !twin {
                        out.cut_for(nm, wy[i]);
                    }
                }
            }
        }
        // residuals belong to the reported coefficients and alpha
        let nr = format!("{pre}.residuals_belong");
        let mut obj = zero;
        for i in 0..n {
            let mut fit = zero;
            for j in 0..m {
                fit = fit + wphi[(i, j)] * c[(j, 0)];
                out.cut_for(&nr, wphi[(i, j)]);
                out.cut_for(&nr, c[(j, 0)]);
            }
            if !twin {
                out.cut_for(&nr, wy[i]);
            }
            out.eq(&nr, format!("r[{i}]"), r[i], wy[i] - fit);
            obj = obj + r[i] * r[i];
        }
        if fail_at.is_none() {
            // the optimizer's objective is computed from the residual vector it was handed: its elements are opaque here
            for i in 0..n {
                out.cut_for("C04.objective_is_half_squared_norm", r[i]);
            }
            out.eq("C04.objective_is_half_squared_norm", "objective".into(), fr.minimization_report.objective_function, obj * half);
            if let Some(o0) = obj0 {
                let (of, o0f) = (fr.minimization_report.objective_function.peek(), o0.peek());
                out.fact("C04.objective_not_larger_than_initial.concrete", of <= o0f * (1.0 + 1e-9) + 1e-300, format!("objective {of} > objective at the initial guess {o0f}"));
                out.le("C04.objective_not_larger_than_initial", "objective <= objective(alpha0)".into(), fr.minimization_report.objective_function, if twin { o0 * half * half * half } else { o0 });
            }
        }
    }
}
