//! Scenario `symfit`: the real `LevMarSolver::fit` -- i.e. the real Levenberg-Marquardt driver of the
//! `levenberg-marquardt` crate calling the real `set_params` / `residuals` / `jacobian` of varpro -- is executed on a
//! model that is a genuine function of alpha (affine: Phi(alpha) = A + sum_k alpha_k B_k, symbolic A, B_k), with the
//! real nalgebra SVD (one basis function) and a small evaluation budget.  One run = one path through optimizer and
//! library; the values of observations, weights, A, B_k, the initial guess are universally quantified on that path.
//! Obligations (C04, C09, C02): Ok <=> successful termination; the returned problem is at the reported alpha; its
//! coefficients / residuals are the closed forms for that alpha; objective = 1/2 ||r||^2; objective <= objective at
//! the initial guess; evaluations within patience*(P+1).
use crate::hs::*;
use crate::scen_core::small;
use crate::Cfg;
use levenberg_marquardt::{LeastSquaresProblem, LevenbergMarquardt};
use nalgebra::{DMatrix, DVector, Dyn, OMatrix, OVector};
use std::sync::atomic::{AtomicUsize, Ordering};
use std::sync::Arc;
use varpro::prelude::*;
use varpro::solvers::levmar::*;

#[derive(Debug, Clone, PartialEq)]
pub struct AffErr(pub &'static str);
impl std::fmt::Display for AffErr {
    fn fmt(&self, f: &mut std::fmt::Formatter<'_>) -> std::fmt::Result {
        write!(f, "affine model error {}", self.0)
    }
}
impl std::error::Error for AffErr {}

/// Phi(alpha) = A + sum_k alpha_k B_k ;  dPhi/dalpha_k = B_k
#[derive(Clone)]
pub struct AffineModel<T: HS> {
    pub params: DVector<T>,
    pub a: DMatrix<T>,
    pub b: Vec<DMatrix<T>>,
    /// shared call counter (set_params, eval and eval_partial_deriv calls in order)
    pub calls: Arc<AtomicUsize>,
    pub evals: Arc<AtomicUsize>,
    /// model call index at which the model fails (persistently from then on if `persistent`)
    pub fail_at: Option<usize>,
    pub persistent: bool,
    pub failed: Arc<AtomicUsize>,
}
impl<T: HS> AffineModel<T> {
    fn tick(&self) -> bool {
        let k = self.calls.fetch_add(1, Ordering::SeqCst);
        let fail = match self.fail_at {
            Some(f) => k == f || (self.persistent && k > f),
            None => false,
        };
        if fail {
            self.failed.fetch_add(1, Ordering::SeqCst);
        }
        fail
    }
    pub fn phi_at(&self, alpha: &DVector<T>) -> DMatrix<T> {
        let mut m = self.a.clone();
        for (k, bk) in self.b.iter().enumerate() {
            m = DMatrix::from_fn(m.nrows(), m.ncols(), |i, j| m[(i, j)] + alpha[k] * bk[(i, j)]);
        }
        m
    }
}
impl<T: HS> SeparableNonlinearModel for AffineModel<T> {
    type ScalarType = T;
    type Error = AffErr;
    fn parameter_count(&self) -> usize {
        self.b.len()
    }
    fn base_function_count(&self) -> usize {
        self.a.ncols()
    }
    fn output_len(&self) -> usize {
        self.a.nrows()
    }
    fn set_params(&mut self, p: OVector<T, Dyn>) -> Result<(), AffErr> {
        if self.tick() {
            return Err(AffErr("set_params"));
        }
        self.params = p;
        Ok(())
    }
    fn params(&self) -> OVector<T, Dyn> {
        self.params.clone()
    }
    fn eval(&self) -> Result<OMatrix<T, Dyn, Dyn>, AffErr> {
        self.evals.fetch_add(1, Ordering::SeqCst);
        if self.tick() {
            return Err(AffErr("eval"));
        }
        Ok(self.phi_at(&self.params))
    }
    fn eval_partial_deriv(&self, k: usize) -> Result<OMatrix<T, Dyn, Dyn>, AffErr> {
        if self.tick() {
            return Err(AffErr("deriv"));
        }
        Ok(self.b[k].clone())
    }
}

pub fn run<T: HS>(cfg: &Cfg, out: &mut Out<T>) {
    let (n, m, p) = (cfg.usize("n", 3), cfg.usize("m", 1), cfg.usize("p", 1));
    let patience = cfg.usize("patience", 1);
    let wkind = cfg.str("w", "diag");
    let fail_at = cfg.opt_usize("fail_at");
    let persistent = cfg.usize("persistent", 0) == 1;
    let twin = cfg.usize("twin", 0) == 1;
    let salt = cfg.usize("salt", 0) * 13;
    // obligations are filed under C09 when a model failure is injected, under C04 otherwise
    let pre = if fail_at.is_some() { "C09" } else { "C04" };
    let zero = T::ratio(0, 1);
    let half = T::ratio(1, 2);
    let w: Option<DVector<T>> = match wkind.as_str() {
        "none" => None,
        _ => Some(DVector::from_fn(n, |i, _| {
            let (a, b) = small(i, 1 + salt);
            T::var(&format!("w{i}"), a, b)
        })),
    };
    let y = DVector::from_fn(n, |i, _| {
        let (a, b) = small(i, 2 + salt);
        T::var(&format!("y{i}"), a, b)
    });
    let a = DMatrix::from_fn(n, m, |i, j| {
        let (x, d) = small(i * m + j, 5 + salt);
        T::var(&format!("a_{i}_{j}"), x, d)
    });
    let b: Vec<DMatrix<T>> = (0..p)
        .map(|k| {
            DMatrix::from_fn(n, m, |i, j| {
                let (x, d) = small(i * m + j + 7 * k, 6 + salt);
                T::var(&format!("b{k}_{i}_{j}"), x, d)
            })
        })
        .collect();
    let alpha0 = DVector::from_fn(p, |k, _| {
        let (x, d) = small(k, 7 + salt);
        T::var(&format!("alpha0_{k}"), x, d)
    });
    let calls = Arc::new(AtomicUsize::new(0));
    let evals = Arc::new(AtomicUsize::new(0));
    let failed = Arc::new(AtomicUsize::new(0));
    let model = AffineModel { params: alpha0.clone(), a: a.clone(), b: b.clone(), calls: calls.clone(), evals: evals.clone(), fail_at, persistent, failed: failed.clone() };
    let spec_model = model.clone();
    let mut bld = LevMarProblemBuilder::new(model).observations(y.clone());
    if let Some(w) = &w {
        bld = bld.weights(w.clone());
    }
    let problem = match bld.build() {
        Ok(p) => p,
        Err(e) => {
            out.fact("C18.build_ok", false, format!("build() failed on consistent inputs: {e:?}"));
            return;
        }
    };
    let wi = |i: usize| w.as_ref().map(|w| w[i]).unwrap_or(T::ratio(1, 1));
    // objective at the initial guess (from the problem as built)
    let r0 = problem.residuals();
    let obj0 = r0.as_ref().map(|r| {
        let mut acc = zero;
        for i in 0..r.nrows() {
            acc = acc + r[i] * r[i];
        }
        acc * half
    });
    let calls_before_fit = calls.load(Ordering::SeqCst);
    let evals_before_fit = evals.load(Ordering::SeqCst);
    let solver = LevMarSolver::with_solver(LevenbergMarquardt::new().with_patience(patience));
    let res = solver.fit(problem);
    let (ok, fr) = match res {
        Ok(fr) => (true, fr),
        Err(fr) => (false, fr),
    };
    let term = &fr.minimization_report.termination;
    let term_ok = term.was_successful();
    let term_txt = format!("{:?}", term);
    out.notes.push(format!("termination {}, evaluations {}, model calls {}, ok {}", term_txt, fr.minimization_report.number_of_evaluations, calls.load(Ordering::SeqCst) - calls_before_fit, ok));
    out.fact("C04.ok_iff_successful", ok == term_ok, format!("fit returned {} with {}", if ok { "Ok" } else { "Err" }, term_txt));
    out.fact("C04.was_successful_accessor", fr.was_successful() == term_ok, term_txt.clone());
    let budget = patience * (p + 1);
    out.fact("C04.evaluations_within_budget", fr.minimization_report.number_of_evaluations <= budget, format!("{} evaluations reported, budget {budget}", fr.minimization_report.number_of_evaluations));
    // the model is evaluated once per residual evaluation of the optimizer (plus once for the final re-application)
    let model_evals = evals.load(Ordering::SeqCst) - evals_before_fit;
    out.fact("C04.model_evaluations_within_budget", model_evals <= budget + 1, format!("{model_evals} model evaluations during fit, budget {budget} (+1)"));
    let hit = failed.load(Ordering::SeqCst) > 0;
    if hit {
        out.fact("C09.failure_gives_err", !ok, format!("fit returned Ok although a model call failed ({})", term_txt));
    }
    // ---- the returned state
    let alpha_hat = fr.nonlinear_parameters();
    let pp = fr.problem.params();
    for k in 0..p {
        out.eq(&format!("{pre}.params_are_reported_alpha"), format!("alpha[{k}]"), pp[k], alpha_hat[k]);
        // everything claimed about the returned state holds for EVERY alpha-hat: the solver may forget how the
        // optimizer computed it
        out.cut(alpha_hat[k]);
    }
    let resid = fr.problem.residuals();
    let coeff = fr.linear_coefficients().map(|c| DMatrix::from_iterator(c.nrows(), c.ncols(), c.iter().cloned()));
    if ok {
        out.fact("C04.successful_result_has_state", resid.is_some() && coeff.is_some(), "Ok without residuals/coefficients".into());
    }
    out.fact("C09.presence_consistent", resid.is_some() == coeff.is_some(), "residuals and coefficients: only one of them present".into());
    if !hit {
        // "in both cases hands back the final problem": a model that never failed leaves a problem with its state, Ok or Err
        out.fact("C04.returns_the_final_problem_with_its_state", resid.is_some() && coeff.is_some(), format!("the model never failed, fit returned {} ({term_txt}) but the returned problem has no residuals/coefficients", if ok { "Ok" } else { "Err" }));
    }
    if let (Some(r), Some(c)) = (&resid, &coeff) {
        // specification at alpha_hat (one basis function: closed form of the weighted least-squares problem)
        let phi = spec_model.phi_at(&alpha_hat);
        let wphi = DMatrix::from_fn(n, m, |i, j| wi(i) * phi[(i, j)]);
        let wy = DVector::from_fn(n, |i, _| (if twin && i == 0 { wi(i) + T::ratio(1, 1) } else { wi(i) }) * y[i]);
        // what the library hands to the SVD / projects are the weighted matrix and the weighted data: for the algebra of
        // the solve their inside (w_i * phi_i(alpha)) is irrelevant
        if m == 1 {
            let mut num = zero;
            let mut den = zero;
            for i in 0..n {
                num = num + wphi[(i, 0)] * wy[i];
                den = den + wphi[(i, 0)] * wphi[(i, 0)];
            }
            let eps = <T as num_traits::Float>::epsilon();
            // rank cases as premises: sigma^2 > eps^2  <=>  sigma > eps  (sigma >= 0)
            let (nf, nd) = (format!("{pre}.coefficients_optimal[full]"), format!("{pre}.coefficients_optimal[deficient]"));
            out.eq(&nf, "c[0]*sum (w phi)^2".into(), c[(0, 0)] * den, num);
            out.given(&nf, den, ">", eps * eps);
            out.eq(&nd, "c[0]".into(), c[(0, 0)], zero);
            out.given(&nd, den, "<=", eps * eps);
            for i in 0..n {
                for nm in [&nf, &nd] {
                    out.cut_for(nm, wphi[(i, 0)]);
                    if !twin {
                        out.cut_for(nm, wy[i]);
                    }
                }
            }
        }
        // residuals belong to the reported coefficients and alpha
        let nr = format!("{pre}.residuals_belong");
        let mut obj = zero;
        for i in 0..n {
            let mut fit = zero;
            for j in 0..m {
                fit = fit + wphi[(i, j)] * c[(j, 0)];
                out.cut_for(&nr, wphi[(i, j)]);
                out.cut_for(&nr, c[(j, 0)]);
            }
            if !twin {
                out.cut_for(&nr, wy[i]);
            }
            out.eq(&nr, format!("r[{i}]"), r[i], wy[i] - fit);
            obj = obj + r[i] * r[i];
        }
        if fail_at.is_none() {
            // the optimizer's objective is computed from the residual vector it was handed: its elements are opaque here
            for i in 0..n {
                out.cut_for("C04.objective_is_half_squared_norm", r[i]);
            }
            out.eq("C04.objective_is_half_squared_norm", "objective".into(), fr.minimization_report.objective_function, obj * half);
            if let Some(o0) = obj0 {
                let (of, o0f) = (fr.minimization_report.objective_function.peek(), o0.peek());
                out.fact("C04.objective_not_larger_than_initial.concrete", of <= o0f * (1.0 + 1e-9) + 1e-300, format!("objective {of} > objective at the initial guess {o0f}"));
                out.le("C04.objective_not_larger_than_initial", "objective <= objective(alpha0)".into(), fr.minimization_report.objective_function, if twin { o0 * half * half * half } else { o0 });
            }
        }
    }
}

/// outcome of one complete fit, for relational comparison
pub struct FitOut<T: HS> {
    pub ok: bool,
    pub term: String,
    pub evaluations: usize,
    pub objective: T,
    pub alpha: DVector<T>,
    pub coeff: Option<DMatrix<T>>,
    pub resid: Option<DVector<T>>,
    pub model_calls: usize,
}

struct FitInputs<T: HS> {
    n: usize,
    s: usize,
    p: usize,
    w: Option<DVector<T>>,
    y: DMatrix<T>,
    a: DMatrix<T>,
    b: Vec<DMatrix<T>>,
    alpha0: DVector<T>,
    patience: usize,
}

fn fit_inputs<T: HS>(cfg: &Cfg) -> FitInputs<T> {
    let (n, s, p) = (cfg.usize("n", 3), cfg.usize("s", 1), cfg.usize("p", 1));
    let salt = cfg.usize("salt", 0) * 13;
    let w = match cfg.str("w", "diag").as_str() {
        "none" => None,
        _ => Some(DVector::from_fn(n, |i, _| {
            let (a, b) = small(i, 1 + salt);
            T::var(&format!("w{i}"), a, b)
        })),
    };
    let y = DMatrix::from_fn(n, s, |i, j| {
        let (a, b) = small(i + 5 * j, 2 + salt);
        T::var(&format!("y{i}_{j}"), a, b)
    });
    let a = DMatrix::from_fn(n, 1, |i, j| {
        let (x, d) = small(i + j, 5 + salt);
        T::var(&format!("a_{i}_{j}"), x, d)
    });
    let b = (0..p)
        .map(|k| {
            DMatrix::from_fn(n, 1, |i, j| {
                let (x, d) = small(i + j + 7 * k, 6 + salt);
                T::var(&format!("b{k}_{i}_{j}"), x, d)
            })
        })
        .collect();
    let alpha0 = DVector::from_fn(p, |k, _| {
        let (x, d) = small(k, 7 + salt);
        T::var(&format!("alpha0_{k}"), x, d)
    });
    FitInputs { n, s, p, w, y, a, b, alpha0, patience: cfg.usize("patience", 2) }
}

macro_rules! fit_variant {
    ($name:ident, $ctor:ident, $mrhs:tt) => {
        fn $name<T: HS>(inp: &FitInputs<T>, col: Option<usize>) -> Option<FitOut<T>> {
            let calls = Arc::new(AtomicUsize::new(0));
            let model = AffineModel { params: inp.alpha0.clone(), a: inp.a.clone(), b: inp.b.clone(), calls: calls.clone(), evals: Arc::new(AtomicUsize::new(0)), fail_at: None, persistent: false, failed: Arc::new(AtomicUsize::new(0)) };
            let ysel = match col {
                Some(c) => DMatrix::from_fn(inp.n, 1, |i, _| inp.y[(i, c)]),
                None => inp.y.clone(),
            };
            let mut bld = LevMarProblemBuilder::$ctor(model).observations(fit_obs!($mrhs, ysel));
            if let Some(w) = &inp.w {
                bld = bld.weights(w.clone());
            }
            let problem = bld.build().ok()?;
            let before = calls.load(Ordering::SeqCst);
            let solver = LevMarSolver::with_solver(LevenbergMarquardt::new().with_patience(inp.patience));
            let (ok, fr) = match solver.fit(problem) {
                Ok(fr) => (true, fr),
                Err(fr) => (false, fr),
            };
            Some(FitOut {
                ok,
                term: format!("{:?}", fr.minimization_report.termination),
                evaluations: fr.minimization_report.number_of_evaluations,
                objective: fr.minimization_report.objective_function,
                alpha: fr.nonlinear_parameters(),
                coeff: fr.linear_coefficients().map(|c| DMatrix::from_iterator(c.nrows(), c.ncols(), c.iter().cloned())),
                resid: fr.problem.residuals(),
                model_calls: calls.load(Ordering::SeqCst) - before,
            })
        }
    };
}
macro_rules! fit_obs {
    (false, $y:expr) => {
        DVector::from_iterator($y.nrows(), $y.column(0).iter().cloned())
    };
    (true, $y:expr) => {
        $y
    };
}
fit_variant!(fit_vec_seq, new, false);
fit_variant!(fit_mrhs_seq, mrhs, true);
fit_variant!(fit_vec_par, new_parallel, false);
fit_variant!(fit_mrhs_par, mrhs_parallel, true);

fn compare<T: HS>(out: &mut Out<T>, name: &str, x: &FitOut<T>, y: &FitOut<T>, what: &str) {
    // generalisation points: the parameters either run arrived at
    for k in 0..y.alpha.len() {
        out.cut(y.alpha[k]);
    }
    out.fact(&format!("{name}.same_outcome"), x.ok == y.ok && x.term == y.term, format!("{what}: {} {} vs {} {}", x.ok, x.term, y.ok, y.term));
    out.fact(&format!("{name}.same_evaluations"), x.evaluations == y.evaluations && x.model_calls == y.model_calls, format!("{what}: {} evaluations / {} model calls vs {} / {}", x.evaluations, x.model_calls, y.evaluations, y.model_calls));
    out.eq(&format!("{name}.same_fit"), format!("{what}: objective"), x.objective, y.objective);
    for k in 0..x.alpha.len().min(y.alpha.len()) {
        out.eq(&format!("{name}.same_fit"), format!("{what}: alpha[{k}]"), x.alpha[k], y.alpha[k]);
    }
    match (&x.coeff, &y.coeff) {
        (Some(a), Some(b)) => out.eq_mat(&format!("{name}.same_fit"), &format!("{what}: coefficients"), a, b),
        (None, None) => {}
        _ => out.fact(&format!("{name}.same_presence"), false, format!("{what}: coefficients present in one flavour only")),
    }
    match (&x.resid, &y.resid) {
        (Some(a), Some(b)) => out.eq_mat(&format!("{name}.same_fit"), &format!("{what}: residuals"), &vec_to_mat(a), &vec_to_mat(b)),
        (None, None) => {}
        _ => out.fact(&format!("{name}.same_presence"), false, format!("{what}: residuals present in one flavour only")),
    }
}

/// the returned state of a complete fit against its specification (one basis function, S right-hand sides): per column s
/// the coefficient is the weighted least-squares optimum at alpha-hat, block s of the residual vector is
/// W y_s - W phi(alpha-hat) c_s, and the reported objective is half the squared norm of the whole residual vector
fn spec_check<T: HS>(out: &mut Out<T>, name: &str, inp: &FitInputs<T>, x: &FitOut<T>, twin: bool) {
    let (Some(c), Some(r)) = (&x.coeff, &x.resid) else { return };
    let zero = T::ratio(0, 1);
    let one = T::ratio(1, 1);
    let n = inp.n;
    let s_cols = c.ncols();
    let wi = |i: usize| inp.w.as_ref().map(|w| w[i]).unwrap_or(one);
    // phi(alpha-hat)
    let mut phi = inp.a.clone();
    for (k, bk) in inp.b.iter().enumerate() {
        phi = DMatrix::from_fn(n, 1, |i, j| phi[(i, j)] + x.alpha[k] * bk[(i, j)]);
    }
    let wphi: Vec<T> = (0..n).map(|i| wi(i) * phi[(i, 0)]).collect();
    let eps = <T as num_traits::Float>::epsilon();
    let mut den = zero;
    for i in 0..n {
        den = den + wphi[i] * wphi[i];
    }
    out.fact(&format!("{name}.shapes"), r.len() == n * s_cols && c.nrows() == 1, format!("residual vector of length {} for {} samples and {} right-hand sides", r.len(), n, s_cols));
    if r.len() != n * s_cols {
        return;
    }
    let (nf, nd, nr, no) = (format!("{name}.coefficients_optimal[full]"), format!("{name}.coefficients_optimal[deficient]"), format!("{name}.residual_blocks"), format!("{name}.objective_is_half_squared_norm"));
    let mut obj = zero;
    for col in 0..s_cols {
        let wy: Vec<T> = (0..n).map(|i| (if twin && i == 0 { wi(i) + one } else { wi(i) }) * inp.y[(i, col)]).collect();
        let mut num = zero;
        for i in 0..n {
            num = num + wphi[i] * wy[i];
        }
        out.eq(&nf, format!("c[0,{col}]*sum (w phi)^2"), c[(0, col)] * den, num);
        out.eq(&nd, format!("c[0,{col}]"), c[(0, col)], zero);
        for i in 0..n {
            out.eq(&nr, format!("r[{i}; column {col}]"), r[col * n + i], wy[i] - wphi[i] * c[(0, col)]);
            obj = obj + r[col * n + i] * r[col * n + i];
            out.cut_for(&no, r[col * n + i]);
            for nm in [&nf, &nd, &nr] {
                out.cut_for(nm, wphi[i]);
                if !twin {
                    out.cut_for(nm, wy[i]);
                }
            }
        }
        out.cut_for(&nr, c[(0, col)]);
    }
    out.given(&nf, den, ">", eps * eps);
    out.given(&nd, den, "<=", eps * eps);
    out.eq(&no, "objective".into(), x.objective, obj * T::ratio(1, 2));
}

/// Scenario `relfit`: complete fits of the same inputs through different flavours, compared as terms.
///   kind=par   : sequential vs parallel constructor (vector API, or matrix API with S columns)        -> C11
///   kind=onecol: one-column matrix-API problem vs the vector-API problem                              -> C07
/// The runs share one term arena: identical computations give identical nodes; anything else goes to the solver with the
/// decisions of BOTH runs as hypotheses.
pub fn relfit<T: HS>(cfg: &Cfg, out: &mut Out<T>) {
    let inp = fit_inputs::<T>(cfg);
    let kind = cfg.str("kind", "par");
    let twin = cfg.usize("twin", 0) == 1;
    match kind.as_str() {
        "par" => {
            let vector_api = inp.s == 1 && cfg.usize("mrhs", 0) == 0;
            let a = if vector_api { fit_vec_seq(&inp, None) } else { fit_mrhs_seq(&inp, None) };
            // install=1: the parallel fit runs inside a worker of a dedicated pool (a different splitting of the work)
            let b = if cfg.usize("install", 0) == 1 {
                let pool = rayon::ThreadPoolBuilder::new().num_threads(cfg.usize("threads", 1).max(1)).build().expect("local rayon pool");
                pool.install(|| if vector_api { fit_vec_par(&inp, None) } else { fit_mrhs_par(&inp, None) })
            } else if vector_api {
                fit_vec_par(&inp, None)
            } else {
                fit_mrhs_par(&inp, None)
            };
            match (a, b) {
                (Some(mut a), Some(b)) => {
                    if twin {
                        a.alpha[0] = a.alpha[0] + T::ratio(1, 1);
                    }
                    compare(out, "C11.fit", &a, &b, "sequential vs parallel");
                    if !twin {
                        // the parallel fit against the specification of its returned state (matrix API: per column)
                        spec_check(out, "C11.fit.state", &inp, &b, false);
                    }
                }
                (None, None) => out.notes.push("both builds failed".into()),
                _ => out.fact("C11.fit.same_outcome", false, "build succeeded in one flavour only".into()),
            }
        }
        "onecol" => {
            let (a, b) = (fit_vec_seq(&inp, Some(0)), fit_mrhs_seq(&inp, Some(0)));
            match (a, b) {
                (Some(mut a), Some(b)) => {
                    if twin {
                        a.alpha[0] = a.alpha[0] + T::ratio(1, 1);
                    }
                    compare(out, "C07.fit", &a, &b, "vector API vs one-column matrix API");
                    if !twin {
                        spec_check(out, "C07.fit.state", &inp, &b, false);
                    }
                }
                (None, None) => out.notes.push("both builds failed".into()),
                _ => out.fact("C07.fit.same_outcome", false, "build succeeded in one API only".into()),
            }
        }
        _ => panic!("unknown relfit kind"),
    }
    let _ = inp.p;
}

// =================================================================================================================
// `symfit2`: the optimizer loop with TWO basis functions.  The SVD cannot run on symbolic matrices, and a planted
// factorisation needs the factors of Phi(alpha) for parameters that are only known when the optimizer asks for them.
// So the model is DEFINED through its factors:  W Phi(alpha) = Rz(alpha_0) U0 diag(sigma) V(alpha_1)^T  with the rational
// rotation Rz(k) = [[c,-s,0],[s,c,0],[0,0,1]], c = (1-k^2)/(1+k^2), s = 2k/(1+k^2) (orthogonal for every k), a fixed exact
// rational frame U0 (3x2) and V(k) the 2x2 rotation of the same form (or a fixed frame when P = 1).  Every `eval` plants the
// factors for the parameters in effect; the matrix handed to the SVD is proved equal to the planted product (SVD.input).
// =================================================================================================================
use crate::scen_core::{check_state, default_eps, Inputs, Observed};
use crate::stub::{orthogonal, Plant, State, CUR_PLANT, PLANTS, PLANT_PRODUCTS};

fn cs<T: HS>(k: T) -> (T, T) {
    let one = T::ratio(1, 1);
    let den = one + k * k;
    ((one - k * k) / den, (T::ratio(2, 1) * k) / den)
}
fn dcs<T: HS>(k: T) -> (T, T) {
    // d/dk of ((1-k^2)/(1+k^2), 2k/(1+k^2)) = (-4k, 2(1-k^2)) / (1+k^2)^2
    let one = T::ratio(1, 1);
    let den = (one + k * k) * (one + k * k);
    ((T::ratio(-4, 1) * k) / den, (T::ratio(2, 1) * (one - k * k)) / den)
}

#[derive(Clone)]
pub struct RotModel<T: HS> {
    pub params: DVector<T>,
    pub u0: DMatrix<T>,
    pub v0: DMatrix<T>,
    pub sigma: DVector<T>,
    pub w: DVector<T>,
    pub calls: Arc<AtomicUsize>,
    pub evals: Arc<AtomicUsize>,
    pub fail_at: Option<usize>,
    pub failed: Arc<AtomicUsize>,
}
impl<T: HS> RotModel<T> {
    fn tick(&self) -> bool {
        let k = self.calls.fetch_add(1, Ordering::SeqCst);
        let fail = self.fail_at == Some(k);
        if fail {
            self.failed.fetch_add(1, Ordering::SeqCst);
        }
        fail
    }
    /// rotation in the plane of the first two coordinates (identity on the others)
    fn rz(n: usize, a: usize, c: T, s: T) -> DMatrix<T> {
        let (z, o) = (T::ratio(0, 1), T::ratio(1, 1));
        DMatrix::from_fn(n, n, |i, j| {
            if (i, j) == (a, a) || (i, j) == (a + 1, a + 1) {
                c
            } else if (i, j) == (a, a + 1) {
                -s
            } else if (i, j) == (a + 1, a) {
                s
            } else if i == j {
                o
            } else {
                z
            }
        })
    }
    /// its derivative pattern (zero outside the 2x2 block)
    fn drz(n: usize, a: usize, c: T, s: T) -> DMatrix<T> {
        let z = T::ratio(0, 1);
        DMatrix::from_fn(n, n, |i, j| {
            if (i, j) == (a, a) || (i, j) == (a + 1, a + 1) {
                c
            } else if (i, j) == (a, a + 1) {
                -s
            } else if (i, j) == (a + 1, a) {
                s
            } else {
                z
            }
        })
    }
    fn rot2(c: T, s: T) -> DMatrix<T> {
        DMatrix::from_row_slice(2, 2, &[c, -s, s, c])
    }
    /// U at the given parameters: U = R01(alpha_0) R23(alpha_1) U0 (the second rotation needs N >= 4); V is fixed -- a
    /// parameter that only rotated V would leave range(W Phi) unchanged and give an identically vanishing Jacobian column
    pub fn u_at(&self, alpha: &DVector<T>, deriv: Option<usize>) -> DMatrix<T> {
        let n = self.u0.nrows();
        let mut u = self.u0.clone();
        for k in (0..alpha.len()).rev() {
            let (c, s) = if deriv == Some(k) { dcs(alpha[k]) } else { cs(alpha[k]) };
            let r = if deriv == Some(k) { Self::drz(n, 2 * k, c, s) } else { Self::rz(n, 2 * k, c, s) };
            u = r * u;
        }
        u
    }
    pub fn plant_at(&self, alpha: &DVector<T>) -> Plant<T> {
        Plant { u: self.u_at(alpha, None), sigma: self.sigma.clone(), vt: self.v0.transpose() }
    }
    fn unweight(&self, a: DMatrix<T>) -> DMatrix<T> {
        DMatrix::from_fn(a.nrows(), a.ncols(), |i, j| a[(i, j)] / self.w[i])
    }
    pub fn phi_at(&self, alpha: &DVector<T>) -> DMatrix<T> {
        self.unweight(self.plant_at(alpha).product())
    }
    pub fn deriv_at(&self, alpha: &DVector<T>, k: usize) -> DMatrix<T> {
        let sig = DMatrix::from_diagonal(&self.sigma);
        self.unweight(self.u_at(alpha, Some(k)) * sig * self.v0.transpose())
    }
    fn plant_now(&self) {
        let pl = self.plant_at(&self.params);
        let conv = |v: &[T]| -> Option<Vec<verif_sym::Sym>> { v.iter().map(|x| x.as_sym()).collect() };
        let entry = (|| Some((conv(pl.u.as_slice())?, conv(pl.sigma.as_slice())?, conv(pl.vt.as_slice())?)))();
        let a = pl.product();
        let prod = conv(a.as_slice()).map(|v| (a.nrows(), a.ncols(), v));
        let mut g = PLANTS.lock().unwrap();
        let mut pp = PLANT_PRODUCTS.lock().unwrap();
        g.push(entry);
        pp.push(prod);
        *CUR_PLANT.lock().unwrap() = g.len() - 1;
    }
}
impl<T: HS> SeparableNonlinearModel for RotModel<T> {
    type ScalarType = T;
    type Error = AffErr;
    fn parameter_count(&self) -> usize {
        self.params.len()
    }
    fn base_function_count(&self) -> usize {
        2
    }
    fn output_len(&self) -> usize {
        self.u0.nrows()
    }
    fn set_params(&mut self, p: OVector<T, Dyn>) -> Result<(), AffErr> {
        if self.tick() {
            return Err(AffErr("set_params"));
        }
        self.params = p;
        Ok(())
    }
    fn params(&self) -> OVector<T, Dyn> {
        self.params.clone()
    }
    fn eval(&self) -> Result<OMatrix<T, Dyn, Dyn>, AffErr> {
        self.evals.fetch_add(1, Ordering::SeqCst);
        if self.tick() {
            return Err(AffErr("eval"));
        }
        self.plant_now();
        Ok(self.phi_at(&self.params))
    }
    fn eval_partial_deriv(&self, k: usize) -> Result<OMatrix<T, Dyn, Dyn>, AffErr> {
        if self.tick() {
            return Err(AffErr("deriv"));
        }
        Ok(self.deriv_at(&self.params, k))
    }
}

pub fn run2<T: HS>(cfg: &Cfg, out: &mut Out<T>) {
    let p = cfg.usize("p", 1).clamp(1, 2);
    let patience = cfg.usize("patience", 1);
    let fail_at = cfg.opt_usize("fail_at");
    let twin = cfg.usize("twin", 0) == 1;
    let salt = cfg.usize("salt", 0) * 13;
    let (useed, vseed) = (cfg.usize("useed", 2) as u64, cfg.usize("vseed", 5) as u64);
    // N >= 2P (one coordinate plane per parameter) and N - M >= P: otherwise the Jacobian (whose columns lie in the orthogonal complement of range(W Phi)) is rank deficient
    let (n, m) = (cfg.usize("n", 2 * p + 1).clamp(2 * p + 1, 6), 2usize);
    let zero = T::ratio(0, 1);
    let half = T::ratio(1, 2);
    let pre = if fail_at.is_some() { "C09" } else { "C04" };
    let w = DVector::from_fn(n, |i, _| {
        if cfg.str("w", "diag") == "none" {
            T::ratio(1, 1)
        } else {
            let (a, b) = small(i, 1 + salt);
            T::var(&format!("w{i}"), a, b)
        }
    });
    for i in 0..n {
        if cfg.str("w", "diag") != "none" {
            out.assume(w[i], "!=", zero);
        }
    }
    let y = DMatrix::from_fn(n, 1, |i, _| {
        let (a, b) = small(i, 2 + salt);
        T::var(&format!("y{i}_0"), a, b)
    });
    let sigma = DVector::from_fn(2, |j, _| T::var(&format!("s0_{j}"), (3 + 2 * j) as i64, 1 + j as i64));
    for j in 0..2 {
        out.assume(sigma[j], ">=", zero);
    }
    let alpha0 = DVector::from_fn(p, |k, _| {
        let (x, d) = small(k, 7 + salt);
        T::var(&format!("alpha0_{k}"), x, 4 * d)
    });
    let u0 = orthogonal::<T>(n, useed).columns(0, 2).into_owned();
    let v0 = orthogonal::<T>(2, vseed);
    PLANTS.lock().unwrap().clear();
    PLANT_PRODUCTS.lock().unwrap().clear();
    let calls = Arc::new(AtomicUsize::new(0));
    let evals = Arc::new(AtomicUsize::new(0));
    let failed = Arc::new(AtomicUsize::new(0));
    let model = RotModel { params: alpha0.clone(), u0, v0, sigma: sigma.clone(), w: w.clone(), calls: calls.clone(), evals: evals.clone(), fail_at, failed: failed.clone() };
    let spec_model = model.clone();
    let weighted = cfg.str("w", "diag") != "none";
    let mut bld = LevMarProblemBuilder::new(model).observations(DVector::from_iterator(n, y.iter().cloned()));
    if weighted {
        bld = bld.weights(w.clone());
    }
    // a user-supplied truncation threshold inside the loop (symbolic, possibly negative: |eps| counts)
    let user_eps = match cfg.str("eps", "default").as_str() {
        "sym" => Some(T::var("eps", 1, 2)),
        "neg" => Some(T::var("eps", -1, 2)),
        _ => None,
    };
    if let Some(e) = user_eps {
        bld = bld.epsilon(e);
    }
    let problem = match bld.build() {
        Ok(p) => p,
        Err(e) => {
            out.fact("C18.build_ok", false, format!("build() failed on consistent inputs: {e:?}"));
            return;
        }
    };
    let obj0 = problem.residuals().map(|r| {
        let mut acc = zero;
        for i in 0..r.nrows() {
            acc = acc + r[i] * r[i];
        }
        acc * half
    });
    let evals_before = evals.load(Ordering::SeqCst);
    let solver = LevMarSolver::with_solver(LevenbergMarquardt::new().with_patience(patience));
    let (ok, fr) = match solver.fit(problem) {
        Ok(fr) => (true, fr),
        Err(fr) => (false, fr),
    };
    let term_ok = fr.minimization_report.termination.was_successful();
    let term_txt = format!("{:?}", fr.minimization_report.termination);
    out.notes.push(format!("termination {term_txt}, evaluations {}, ok {ok}, svd plants {}", fr.minimization_report.number_of_evaluations, PLANTS.lock().unwrap().len()));
    out.fact("C04.ok_iff_successful", ok == term_ok, format!("fit returned {} with {term_txt}", if ok { "Ok" } else { "Err" }));
    let budget = patience * (p + 1);
    out.fact("C04.evaluations_within_budget", fr.minimization_report.number_of_evaluations <= budget, format!("{} evaluations reported, budget {budget}", fr.minimization_report.number_of_evaluations));
    let model_evals = evals.load(Ordering::SeqCst) - evals_before;
    out.fact("C04.model_evaluations_within_budget", model_evals <= budget + 1, format!("{model_evals} model evaluations during fit, budget {budget} (+1)"));
    let hit = failed.load(Ordering::SeqCst) > 0;
    if hit {
        out.fact("C09.failure_gives_err", !ok, format!("fit returned Ok although a model call failed ({term_txt})"));
    }
    let alpha_hat = fr.nonlinear_parameters();
    for k in 0..p {
        out.cut(alpha_hat[k]);
    }
    let obs = Observed {
        coeff: fr.linear_coefficients().map(|c| DMatrix::from_iterator(c.nrows(), c.ncols(), c.iter().cloned())),
        resid: fr.problem.residuals(),
        jac: fr.problem.jacobian(),
        wdata: {
            let d = fr.problem.weighted_data();
            DMatrix::from_iterator(d.nrows(), d.ncols(), d.iter().cloned())
        },
        params: fr.problem.params(),
    };
    out.fact("C09.presence_consistent", obs.resid.is_some() == obs.coeff.is_some(), "residuals and coefficients: only one of them present".into());
    if !hit {
        out.fact("C04.returns_the_final_problem_with_its_state", obs.resid.is_some() && obs.coeff.is_some(), format!("the model never failed, fit returned {} ({term_txt}) but the returned problem has no residuals/coefficients", if ok { "Ok" } else { "Err" }));
    }
    for k in 0..p {
        out.eq(&format!("{pre}.params_are_reported_alpha"), format!("alpha[{k}]"), obs.params[k], alpha_hat[k]);
    }
    if obs.resid.is_none() {
        return;
    }
    // the specification of the returned state: the obligations of the `core` scenario (C01 closed form for every rank case,
    // C02 residuals / weighted data, C03 Kaufman Jacobian) with the factors planted for alpha-hat
    let inp = Inputs {
        n,
        m,
        s: 1,
        p,
        w: if weighted { Some(w.clone()) } else { None },
        y: y.clone(),
        eps: user_eps,
        plants: vec![Some(spec_model.plant_at(&alpha_hat))],
        states: vec![State { phi: spec_model.phi_at(&alpha_hat), d: (0..p).map(|k| spec_model.deriv_at(&alpha_hat, k)).collect(), eval_fails: false, deriv_fails: None }],
        alphas: vec![alpha_hat.clone()],
        twin,
    };
    check_state("", &inp, 0, user_eps.map(|e| e.s_abs()).unwrap_or(default_eps::<T>()), &obs, out);
    if fail_at.is_none() {
        if let Some(r) = &obs.resid {
            let mut obj = zero;
            for i in 0..r.len() {
                obj = obj + r[i] * r[i];
                out.cut_for("C04.objective_is_half_squared_norm", r[i]);
            }
            out.eq("C04.objective_is_half_squared_norm", "objective".into(), fr.minimization_report.objective_function, obj * half);
            if let Some(o0) = obj0 {
                let (of, o0f) = (fr.minimization_report.objective_function.peek(), o0.peek());
                out.fact("C04.objective_not_larger_than_initial.concrete", of <= o0f * (1.0 + 1e-9) + 1e-300, format!("objective {of} > objective at the initial guess {o0f}"));
                out.le("C04.objective_not_larger_than_initial", "objective <= objective(alpha0)".into(), fr.minimization_report.objective_function, if twin { o0 * half * half * half } else { o0 });
            }
        }
    }
}
