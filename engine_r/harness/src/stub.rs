//! Stub separable model (the code under test only ever sees a model through its matrices), exact
//! rational orthonormal frames, and the planted-SVD hook.
use crate::hs::*;
use nalgebra::{DMatrix, DVector, Dyn, OMatrix, OVector};
use std::sync::Mutex;
use varpro::prelude::*;
use verif_sym::Sym;

#[derive(Debug, Clone, PartialEq)]
pub struct StubErr(pub &'static str);
impl std::fmt::Display for StubErr {
    fn fmt(&self, f: &mut std::fmt::Formatter<'_>) -> std::fmt::Result {
        write!(f, "stub error {}", self.0)
    }
}
impl std::error::Error for StubErr {}

#[derive(Clone)]
pub struct State<T: HS> {
    pub phi: DMatrix<T>,
    pub d: Vec<DMatrix<T>>,
    pub eval_fails: bool,
    pub deriv_fails: Option<usize>,
}
#[derive(Clone, Copy, PartialEq, Debug)]
pub enum Step {
    /// accept the parameters and switch to state i
    To(usize),
    /// reject the parameters (model state unchanged)
    Reject,
}
/// A hand-written separable model whose basis matrix / derivative matrices are given per "state";
/// a script decides what each successive `set_params` call does.
#[derive(Clone)]
pub struct StubModel<T: HS> {
    pub params: DVector<T>,
    pub states: Vec<State<T>>,
    pub cur: usize,
    pub script: Vec<Step>,
    pub calls: usize,
    pub nparams: usize,
}
impl<T: HS> SeparableNonlinearModel for StubModel<T> {
    type ScalarType = T;
    type Error = StubErr;
    fn parameter_count(&self) -> usize {
        self.nparams
    }
    fn base_function_count(&self) -> usize {
        self.states[self.cur].phi.ncols()
    }
    fn output_len(&self) -> usize {
        self.states[self.cur].phi.nrows()
    }
    fn set_params(&mut self, p: OVector<T, Dyn>) -> Result<(), StubErr> {
        let step = self.script.get(self.calls).copied().unwrap_or(Step::To(self.cur));
        self.calls += 1;
        match step {
            Step::Reject => Err(StubErr("set_params")),
            Step::To(i) => {
                self.params = p;
                self.cur = i;
                Ok(())
            }
        }
    }
    fn params(&self) -> OVector<T, Dyn> {
        self.params.clone()
    }
    fn eval(&self) -> Result<OMatrix<T, Dyn, Dyn>, StubErr> {
        *CUR_PLANT.lock().unwrap() = self.cur;
        if self.states[self.cur].eval_fails {
            return Err(StubErr("eval"));
        }
        Ok(self.states[self.cur].phi.clone())
    }
    fn eval_partial_deriv(&self, k: usize) -> Result<OMatrix<T, Dyn, Dyn>, StubErr> {
        if self.states[self.cur].deriv_fails == Some(k) {
            return Err(StubErr("deriv"));
        }
        Ok(self.states[self.cur].d[k].clone())
    }
}

// ---------------------------------------------------------------------------------------------
// exact rational orthogonal matrices: products of Householder reflections with small integer vectors
// ---------------------------------------------------------------------------------------------
fn lcg(seed: &mut u64) -> u64 {
    *seed = seed.wrapping_mul(6364136223846793005).wrapping_add(1442695040888963407);
    *seed >> 33
}
fn householder<T: HS>(n: usize, v: &[i64]) -> DMatrix<T> {
    let vv: i64 = v.iter().map(|x| x * x).sum();
    DMatrix::from_fn(n, n, |i, j| {
        let e = if i == j { T::ratio(1, 1) } else { T::ratio(0, 1) };
        if vv == 0 {
            e
        } else {
            e - T::ratio(2 * v[i] * v[j], vv)
        }
    })
}
/// rationally parametrised rotations (cover ALL rotations of the plane / of space except one of measure zero):
/// 2x2: (1-k^2, 2k)/(1+k^2);  3x3: Euler-Rodrigues with parameters (1, b, c, d)
pub fn parametrised<T: HS>(n: usize, tag: &str) -> Option<DMatrix<T>> {
    let one = T::ratio(1, 1);
    let two = T::ratio(2, 1);
    match n {
        1 => Some(DMatrix::from_element(1, 1, one)),
        2 => {
            let k = T::var(&format!("rot_{tag}_k"), 1, 3);
            let den = one + k * k;
            let (c, s) = ((one - k * k) / den, (two * k) / den);
            Some(DMatrix::from_row_slice(2, 2, &[c, -s, s, c]))
        }
        3 => {
            let (a, b, c, d) = (one, T::var(&format!("rot_{tag}_b"), 1, 2), T::var(&format!("rot_{tag}_c"), -1, 3), T::var(&format!("rot_{tag}_d"), 2, 5));
            let nn = a * a + b * b + c * c + d * d;
            let m = [
                a * a + b * b - c * c - d * d, two * (b * c - a * d), two * (b * d + a * c),
                two * (b * c + a * d), a * a - b * b + c * c - d * d, two * (c * d - a * b),
                two * (b * d - a * c), two * (c * d + a * b), a * a - b * b - c * c + d * d,
            ];
            Some(DMatrix::from_row_slice(3, 3, &m.map(|x| x / nn)))
        }
        _ => None,
    }
}

/// n×n exact rational orthogonal matrix; seed 0 is the identity, seed 1 a cyclic permutation with a sign;
/// seed 9999: rationally parametrised rotation with SYMBOLIC parameters (n <= 3)
pub fn orthogonal<T: HS>(n: usize, seed: u64) -> DMatrix<T> {
    if seed >= 9999 {
        if let Some(m) = parametrised::<T>(n, &format!("{seed}_{n}")) {
            return m;
        }
    }
    if seed == 0 || n == 0 {
        return DMatrix::from_fn(n, n, |i, j| if i == j { T::ratio(1, 1) } else { T::ratio(0, 1) });
    }
    if seed == 1 {
        return DMatrix::from_fn(n, n, |i, j| if (i + 1) % n == j { if i == 0 { T::ratio(-1, 1) } else { T::ratio(1, 1) } } else { T::ratio(0, 1) });
    }
    let mut s = seed.wrapping_mul(0x9E3779B97F4A7C15) ^ (n as u64) << 7;
    let mut q = DMatrix::from_fn(n, n, |i, j| if i == j { T::ratio(1, 1) } else { T::ratio(0, 1) });
    let reflections = if n == 1 { 1 } else { 2 };
    for _ in 0..reflections {
        let mut v: Vec<i64> = (0..n).map(|_| (lcg(&mut s) % 5) as i64 - 2).collect();
        if v.iter().all(|x| *x == 0) {
            v[0] = 1;
        }
        q = householder::<T>(n, &v) * q;
    }
    q
}

/// a planted factorisation A = U diag(sigma) V^T, U: n×k, V^T: k×m, k = min(n, m)
#[derive(Clone)]
pub struct Plant<T: HS> {
    pub u: DMatrix<T>,
    pub sigma: DVector<T>,
    pub vt: DMatrix<T>,
}
impl<T: HS> Plant<T> {
    pub fn new(n: usize, m: usize, useed: u64, vseed: u64, sigma: DVector<T>) -> Self {
        let k = n.min(m);
        let qu = orthogonal::<T>(n, useed);
        let qv = orthogonal::<T>(m, vseed);
        Plant { u: qu.columns(0, k).into_owned(), sigma, vt: qv.transpose().rows(0, k).into_owned() }
    }
    pub fn product(&self) -> DMatrix<T> {
        let k = self.sigma.len();
        let (n, m) = (self.u.nrows(), self.vt.ncols());
        DMatrix::from_fn(n, m, |i, j| {
            let mut acc = T::ratio(0, 1);
            for l in 0..k {
                acc = acc + self.u[(i, l)] * self.sigma[l] * self.vt[(l, j)];
            }
            acc
        })
    }
}

pub struct HookLog {
    pub handed: Vec<Sym>,
    pub nrows: usize,
    pub ncols: usize,
    pub plant_index: usize,
    /// convergence tolerance and iteration bound the SVD was asked to use
    pub eps: Sym,
    pub max_niter: usize,
}
/// planted factorisations, indexed by the stub model's state; `CUR_PLANT` is set by `StubModel::eval`
pub static PLANTS: Mutex<Vec<Option<(Vec<Sym>, Vec<Sym>, Vec<Sym>)>>> = Mutex::new(Vec::new());
pub static CUR_PLANT: Mutex<usize> = Mutex::new(0);
pub static PLANT_PRODUCTS: Mutex<Vec<Option<(usize, usize, Vec<Sym>)>>> = Mutex::new(Vec::new());
pub static HOOK_LOG: Mutex<Vec<HookLog>> = Mutex::new(Vec::new());

pub fn set_plants<T: HS>(plants: &[Option<Plant<T>>]) {
    let conv = |v: &[T]| -> Option<Vec<Sym>> { v.iter().map(|x| x.as_sym()).collect() };
    let mut g = PLANTS.lock().unwrap();
    g.clear();
    let mut pp = PLANT_PRODUCTS.lock().unwrap();
    pp.clear();
    for p in plants {
        pp.push(p.as_ref().and_then(|p| {
            let a = p.product();
            Some((a.nrows(), a.ncols(), conv(a.as_slice())?))
        }));
        g.push(p.as_ref().and_then(|p| Some((conv(p.u.as_slice())?, conv(p.sigma.as_slice())?, conv(p.vt.as_slice())?))));
    }
}

/// Called by the patched nalgebra at the top of `SVD::try_new_unordered`.  For `Sym` matrices the
/// factorisation planted for the model's current state is returned (and the matrix that was handed
/// over is logged so that the driver can prove it equals the planted product); for every other scalar
/// type, and when nothing is planted, nalgebra's own algorithm runs.
#[no_mangle]
pub extern "Rust" fn __verif_svd_hook(tid: std::any::TypeId, data: *const u8, nrows: usize, ncols: usize, u: *mut u8, s: *mut u8, vt: *mut u8, eps: *const u8, max_niter: usize) -> bool {
    if tid != std::any::TypeId::of::<Sym>() {
        return false;
    }
    let cur = *CUR_PLANT.lock().unwrap();
    let q = PLANTS.lock().unwrap();
    let Some(Some((pu, ps, pvt))) = q.get(cur) else {
        // nothing planted: the real SVD runs on Sym ("real-svd" tier), which is only tractable for a single column / row
        if nrows.min(ncols) >= 2 {
            panic!("VERIF-UNSUPPORTED: SVD of a symbolic {nrows}x{ncols} matrix without a planted factorisation");
        }
        return false;
    };
    let k = nrows.min(ncols);
    unsafe {
        let d = data as *const Sym;
        let handed: Vec<Sym> = (0..nrows * ncols).map(|i| *d.add(i)).collect();
        HOOK_LOG.lock().unwrap().push(HookLog { handed, nrows, ncols, plant_index: cur, eps: *(eps as *const Sym), max_niter });
        if pu.len() != nrows * k || pvt.len() != k * ncols {
            // a matrix of the wrong shape was handed to the SVD: reported through the hook log
            // (shape mismatch is a failed hook obligation); fall back to the real algorithm
            return false;
        }
        let (u, s, vt) = (u as *mut Sym, s as *mut Sym, vt as *mut Sym);
        for i in 0..nrows * k {
            *u.add(i) = pu[i];
        }
        for i in 0..k {
            *s.add(i) = ps[i];
        }
        for i in 0..k * ncols {
            *vt.add(i) = pvt[i];
        }
    }
    true
}

/// obligations "the matrix handed to svd equals the planted product" for every hook call so far
pub fn hook_obligations_from_log(out: &mut Out<Sym>) {
    let log = HOOK_LOG.lock().unwrap();
    let prods = PLANT_PRODUCTS.lock().unwrap();
    for (ci, h) in log.iter().enumerate() {
        // the SVD's own convergence tolerance must be a tiny constant (nalgebra's default is 5 * machine epsilon);
        // in particular it must not depend on the user's truncation threshold or any other input
        let tol_ok = h.eps.as_const().map(|c| verif_sym::q_to_f64(&c).abs() <= 1e-9).unwrap_or(false);
        out.fact("SVD.tolerance", tol_ok, format!("svd call {ci}: the convergence tolerance handed to the SVD is {:?} (max_niter = {}): not a small constant", h.eps.node(), h.max_niter));
        let Some(Some((pr, pc, a))) = prods.get(h.plant_index) else { continue };
        if (h.nrows, h.ncols) != (*pr, *pc) {
            out.fact("SVD.input_shape", false, format!("svd call {ci}: matrix {}x{} handed to svd, expected {}x{}", h.nrows, h.ncols, pr, pc));
            continue;
        }
        for j in 0..h.ncols {
            for i in 0..h.nrows {
                out.obligations_push_raw("SVD.input", format!("svd#{ci}[{i},{j}]"), HS::repr(h.handed[i + j * h.nrows]), HS::repr(a[i + j * h.nrows]));
            }
        }
    }
}
