//! Scenario `stats`: the real `FitStatistics::try_calculate` (through the overlay access module) and its
//! accessors on symbolic matrices.  Obligations for C12 (identities, under-determination), C13 (covariance,
//! correlation, variance accessors), C14 (unscaled band sigma), C06 (statistics under row scaling).
use crate::hs::*;
use crate::scen_core::small;
use crate::stub::*;
use crate::Cfg;
use nalgebra::{DMatrix, DVector};
use varpro::statistics::verif_access as acc;
use varpro::statistics::FitStatistics;
use varpro::util::Weights;

/// native (f64 only) check of `confidence_band_radius` through the public API: for several probabilities the radius
/// must equal t((1+p)/2; N-M-P) * sqrt(j_i^T Cov j_i) with j_i a row of the un-weighted [Phi | D_k c]
pub trait NativeBand: HS {
    fn native_band_check(_st: &FitStatistics<StubModel<Self>>, _si: &StatIn<Self>, _dof: usize, _out: &mut Out<Self>) {}
}
impl NativeBand for verif_sym::Sym {}
impl NativeBand for f32 {
    fn native_band_check(st: &FitStatistics<StubModel<f32>>, si: &StatIn<f32>, dof: usize, out: &mut Out<f32>) {
        let (n, m, p) = (si.n, si.m, si.p);
        let cov = st.covariance_matrix();
        if cov.shape() != (m + p, m + p) {
            return;
        }
        // (probabilities close to 1 make the quantile very sensitive to the level: a level formed in single precision shows)
        for prob in [0.5f32, 0.683, 0.95, 0.999, 0.99999, 0.999999] {
            let r = st.confidence_band_radius(prob);
            out.fact("C14.native.band_len", r.len() == n, format!("{}", r.len()));
            if r.len() != n {
                continue;
            }
            let t = distrs::StudentsT::ppf((prob as f64 + 1.0) / 2.0, dof as f64);
            for i in 0..n {
                let j: Vec<f64> = (0..m + p).map(|col| if col < m { si.phi[(i, col)] as f64 } else { (0..m).map(|b| si.d[col - m][(i, b)] as f64 * si.c[b] as f64).sum() }).collect();
                let mut q = 0.0f64;
                for a in 0..m + p {
                    for b in 0..m + p {
                        q += j[a] * cov[(a, b)] as f64 * j[b];
                    }
                }
                let want = t * q.max(0.0).sqrt();
                let ok = (r[i] as f64 - want).abs() <= 2e-3 * (1.0 + want.abs()) || (!want.is_finite() && !r[i].is_finite());
                out.fact("C14.native.band_radius", ok, format!("f32: p={prob}, dof={dof}, sample {i}: radius {} but t((1+p)/2; N-M-P)*sqrt(j^T Cov j) = {want}", r[i]));
            }
        }
    }
}
impl NativeBand for f64 {
    fn native_band_check(st: &FitStatistics<StubModel<f64>>, si: &StatIn<f64>, dof: usize, out: &mut Out<f64>) {
        let (n, m, p) = (si.n, si.m, si.p);
        let cov = st.covariance_matrix();
        if cov.shape() != (m + p, m + p) {
            return;
        }
        for prob in [0.5, 0.683, 0.95, 0.99995, 1e-4] {
            let r = st.confidence_band_radius(prob);
            out.fact("C14.native.band_len", r.len() == n, format!("{}", r.len()));
            if r.len() != n {
                continue;
            }
            let t = distrs::StudentsT::ppf((prob + 1.0) / 2.0, dof as f64);
            for i in 0..n {
                let j: Vec<f64> = (0..m + p).map(|col| if col < m { si.phi[(i, col)] } else { (0..m).map(|b| si.d[col - m][(i, b)] * si.c[b]).sum() }).collect();
                let mut q = 0.0;
                for a in 0..m + p {
                    for b in 0..m + p {
                        q += j[a] * cov[(a, b)] * j[b];
                    }
                }
                let want = t * q.max(0.0).sqrt();
                let ok = (r[i] - want).abs() <= 1e-7 * (1.0 + want.abs()) || (!want.is_finite() && !r[i].is_finite());
                out.fact("C14.native.band_radius", ok, format!("p={prob}, dof={dof}, sample {i}: radius {} but t((1+p)/2; N-M-P)*sqrt(j^T Cov j) = {want}", r[i]));
            }
        }
    }
}

pub struct StatIn<T: HS> {
    pub n: usize,
    pub m: usize,
    pub p: usize,
    pub phi: DMatrix<T>,
    pub d: Vec<DMatrix<T>>,
    pub w: Option<DVector<T>>,
    pub y: DVector<T>,
    pub c: DVector<T>,
    pub twin: bool,
}

pub fn make<T: HS>(cfg: &Cfg) -> StatIn<T> {
    let (n, m, p) = (cfg.usize("n", 4), cfg.usize("m", 2), cfg.usize("p", 1));
    let phi = DMatrix::from_fn(n, m, |i, j| {
        let (a, b) = small(i * m + j, 1);
        T::var(&format!("phi_{i}_{j}"), a, b)
    });
    let d = (0..p)
        .map(|q| {
            DMatrix::from_fn(n, m, |i, j| {
                let (a, b) = small(i * m + j + 3 * q, 2 + q);
                // shared parameters / functions not depending on a parameter: optionally zero columns
                if cfg.usize("sparse", 0) == 1 && (j + q) % 2 == 1 {
                    T::ratio(0, 1)
                } else {
                    T::var(&format!("d{q}_{i}_{j}"), a, b)
                }
            })
        })
        .collect();
    // optional decimal scale of the weights (native validation at extreme scales: absolute thresholds show up there)
    let k = cfg.0.get("wscale10").and_then(|v| v.parse::<i32>().ok()).unwrap_or(0);
    let mut scale = T::ratio(1, 1);
    for _ in 0..k.abs() {
        scale = if k > 0 { scale * T::ratio(10, 1) } else { scale * T::ratio(1, 10) };
    }
    let w = match cfg.str("w", "diag").as_str() {
        "none" if k == 0 => None,
        "none" => Some(DVector::from_element(n, scale)),
        _ => Some(DVector::from_fn(n, |i, _| {
            let (a, b) = small(i, 5);
            T::var(&format!("w{i}"), a, b) * scale
        })),
    };
    let y = DVector::from_fn(n, |i, _| {
        let (a, b) = small(i, 6);
        T::var(&format!("y{i}"), a, b)
    });
    let c = DVector::from_fn(m, |j, _| {
        let (a, b) = small(j, 7);
        T::var(&format!("c{j}"), a, b)
    });
    StatIn { n, m, p, phi, d, w, y, c, twin: cfg.usize("twin", 0) == 1 }
}

fn model<T: HS>(si: &StatIn<T>) -> StubModel<T> {
    StubModel {
        params: DVector::from_fn(si.p, |q, _| T::ratio(1 + q as i64, 1)),
        states: vec![State { phi: si.phi.clone(), d: si.d.clone(), eval_fails: false, deriv_fails: None }],
        cur: 0,
        script: vec![],
        calls: 0,
        nparams: si.p,
    }
}

fn wt<T: HS>(si: &StatIn<T>, i: usize) -> T {
    si.w.as_ref().map(|w| w[i]).unwrap_or(T::ratio(1, 1))
}
/// weight as the *specification* sees it (vacuity twin: deliberately wrong for row 0)
fn wspec<T: HS>(si: &StatIn<T>, i: usize) -> T {
    if si.twin && i == 0 {
        wt(si, i) + T::ratio(1, 1)
    } else {
        wt(si, i)
    }
}

pub fn calc<T: HS>(si: &StatIn<T>, mdl: &StubModel<T>) -> Result<FitStatistics<StubModel<T>>, String> {
    let weights = match &si.w {
        Some(w) => Weights::diagonal(w.clone()),
        None => Weights::default(),
    };
    // the weighted data, as fit_with_statistics passes it
    let yw = DVector::from_fn(si.n, |i, _| wt(si, i) * si.y[i]);
    #[cfg(verif_acc_trycalc)]
    {
        acc::try_calculate_pub(mdl, yw.as_view(), &weights, si.c.as_view())
    }
    #[cfg(not(verif_acc_trycalc))]
    {
        let _ = (mdl, yw, weights);
        panic!("VERIF-UNSUPPORTED: FitStatistics::try_calculate is not callable with the expected signature (refactored?)")
    }
}

pub fn run<T: HS + NativeBand>(cfg: &Cfg, out: &mut Out<T>) {
    let si = make::<T>(cfg);
    let (n, m, p) = (si.n, si.m, si.p);
    let zero = T::ratio(0, 1);
    let mut mdl = model(&si);
    match cfg.str("fail", "none").as_str() {
        "eval" => mdl.states[0].eval_fails = true,
        "deriv" => mdl.states[0].deriv_fails = Some(cfg.usize("fail_k", 0)),
        _ => {}
    }
    let failing = cfg.str("fail", "none") != "none";
    let res = calc(&si, &mdl);
    // ---- error behaviour (C12)
    if failing {
        out.fact("C12.model_error_gives_err", matches!(&res, Err(e) if e == "ModelEvaluation"), format!("{:?}", res.as_ref().err()));
        return;
    }
    if n <= m + p {
        out.fact("C12.underdetermined_gives_err", matches!(&res, Err(e) if e == "Underdetermined"), format!("N={n} M={m} P={p}: {:?}", res.as_ref().map(|_| "Ok").map_err(|e| e.clone())));
        return;
    }
    let st = match res {
        Ok(s) => s,
        Err(e) => {
            // a singular normal matrix is an admissible Err on this path (det == 0 was decided by the code)
            out.fact("C12.ok_when_determined", e == "MatrixInversion", format!("try_calculate failed: {e}"));
            out.notes.push(format!("path ends in Err({e})"));
            return;
        }
    };
    out.fact("C12.ok_when_determined", true, String::new());
    let dof = n - m - p;
    #[cfg(verif_acc_dof)]
    out.fact("C12.dof", acc::degrees_of_freedom(&st) == dof, format!("dof {} expected {}", acc::degrees_of_freedom(&st), dof));
    #[cfg(verif_acc_counts)]
    out.fact("C13.counts", acc::counts(&st) == (m, p), format!("{:?}", acc::counts(&st)));
    // native only (f64): the confidence band radius against an independent evaluation of t((1+p)/2; N-M-P) * sqrt(j^T Cov j)
    T::native_band_check(&st, &si, dof, out);
    // ---- spec-side quantities
    // weighted residuals r_i = w_i y_i - w_i sum_j phi_ij c_j
    let r: Vec<T> = (0..n)
        .map(|i| {
            let mut fit = zero;
            for j in 0..m {
                fit = fit + si.phi[(i, j)] * si.c[j];
            }
            wspec(&si, i) * si.y[i] - wspec(&si, i) * fit
        })
        .collect();
    let wr = st.weighted_residuals();
    out.fact("C12.residual_len", wr.len() == n, format!("{}", wr.len()));
    if wr.len() == n {
        for i in 0..n {
            out.eq("C12.weighted_residuals", format!("r[{i}]"), wr[i], r[i]);
        }
    }
    let mut ss = zero;
    for i in 0..n {
        ss = ss + r[i] * r[i];
    }
    let chi2 = st.reduced_chi2();
    out.eq("C12.reduced_chi2", "chi2*(N-M-P)".into(), chi2 * T::ratio(dof as i64, 1), ss);
    let rse = st.regression_standard_error();
    out.eq("C12.regression_standard_error", "rse^2".into(), rse * rse, chi2);
    // un-weighted model-function Jacobian  J = [Phi | D_k c],  H = W J
    let jm = DMatrix::from_fn(n, m + p, |i, col| {
        if col < m {
            si.phi[(i, col)]
        } else {
            let mut acc = zero;
            for j in 0..m {
                acc = acc + si.d[col - m][(i, j)] * si.c[j];
            }
            acc
        }
    });
    let h = DMatrix::from_fn(n, m + p, |i, col| wspec(&si, i) * jm[(i, col)]);
    let hth = DMatrix::from_fn(m + p, m + p, |a, b| {
        let mut acc = zero;
        for i in 0..n {
            acc = acc + h[(i, a)] * h[(i, b)];
        }
        acc
    });
    let cov = st.covariance_matrix().clone();
    out.fact("C13.cov_shape", cov.shape() == (m + p, m + p), format!("{:?}", cov.shape()));
    if cov.shape() != (m + p, m + p) {
        return;
    }
    // Cov * (H^T H) = sigma^2 I   (sigma^2 = reduced chi^2)
    for a in 0..m + p {
        for b in 0..m + p {
            let mut acc = zero;
            for k in 0..m + p {
                acc = acc + cov[(a, k)] * hth[(k, b)];
            }
            // sigma^2 is written as rse*rse (rse = sqrt(reduced chi^2) is the code's own sqrt atom; rse^2 = chi^2 is C12's obligation)
            out.eq("C13.cov_times_hth", format!("(Cov*HtH)[{a},{b}]"), acc, if a == b { rse * rse } else { zero });
        }
    }
    if !T::SYM {
        // native runs only: the same identity normalised by sigma^2, so that the comparison is O(1) at any scale
        for a in 0..m + p {
            for b in 0..m + p {
                let mut acc = zero;
                for k in 0..m + p {
                    acc = acc + cov[(a, k)] * hth[(k, b)];
                }
                out.eq("C13.native.cov_times_hth_normalised", format!("(Cov*HtH)[{a},{b}]/sigma^2"), acc / (rse * rse), if a == b { T::ratio(1, 1) } else { zero });
            }
        }
    }
    for a in 0..m + p {
        for b in 0..a {
            out.eq("C13.cov_symmetric", format!("Cov[{a},{b}]"), cov[(a, b)], cov[(b, a)]);
        }
    }
    let lv = st.linear_coefficients_variance();
    let nv = st.nonlinear_parameters_variance();
    out.fact("C13.variance_lens", lv.len() == m && nv.len() == p, format!("{} {}", lv.len(), nv.len()));
    for j in 0..m.min(lv.len()) {
        out.eq("C13.linear_variance", format!("var_c[{j}]"), lv[j], cov[(j, j)]);
    }
    for k in 0..p.min(nv.len()) {
        out.eq("C13.nonlinear_variance", format!("var_alpha[{k}]"), nv[k], cov[(m + k, m + k)]);
    }
    // correlation: corr_ij^2 * C_ii * C_jj = C_ij^2
    let corr = st.calculate_correlation_matrix();
    out.fact("C13.corr_shape", corr.shape() == (m + p, m + p), format!("{:?}", corr.shape()));
    if corr.shape() == (m + p, m + p) && cfg.usize("corr", 1) == 1 {
        for a in 0..m + p {
            for b in 0..m + p {
                // exact normalisation (and with it sign agreement): corr_ab * sqrt(Caa*Cbb) = C_ab
                let s = num_traits::Float::sqrt(cov[(a, a)] * cov[(b, b)]);
                out.eq("C13.correlation_normalised", format!("corr[{a},{b}]*sqrt(Caa*Cbb)"), corr[(a, b)] * s, cov[(a, b)]);
            }
        }
    }
    // unit diagonal (for positive variances): corr_aa = 1
    if corr.shape() == (m + p, m + p) && cfg.usize("corr", 1) == 1 {
        for a in 0..m + p {
            out.given("C13.correlation_unit_diagonal", cov[(a, a)], ">", zero);
        }
        for a in 0..m + p {
            out.eq("C13.correlation_unit_diagonal", format!("corr[{a},{a}]"), corr[(a, a)], T::ratio(1, 1));
        }
    }
    // confidence band: sigma_i^2 = j_i^T Cov j_i with j_i row i of the UN-weighted Jacobian
    #[cfg(not(verif_acc_sigma))]
    out.notes.push("accessor for the stored band sigma unavailable (private field renamed?): C14.band_sigma_squared skipped".into());
    #[cfg(verif_acc_sigma)]
    let us = acc::unscaled_sigma(&st);
    #[cfg(verif_acc_sigma)]
    out.fact("C14.sigma_len", us.len() == n, format!("{}", us.len()));
    #[cfg(verif_acc_sigma)]
    if us.len() == n {
        for i in 0..n {
            let mut q = zero;
            // (vacuity twin: the weighted Jacobian H instead of the un-weighted J -- must be refuted)
            let jj = if si.twin { &h } else { &jm };
            for a in 0..m + p {
                for b in 0..m + p {
                    q = q + jj[(i, a)] * cov[(a, b)] * jj[(i, b)];
                }
            }
            out.eq("C14.band_sigma_squared", format!("sigma[{i}]^2"), us[i] * us[i], q);
        }
    }
}

/// C06 (statistics): weights w on (Phi, D, y)  vs  unit weights on (w.Phi, w.D, w.y)
pub fn relw_stats<T: HS>(cfg: &Cfg, out: &mut Out<T>) {
    let si = make::<T>(cfg);
    let w = si.w.clone().expect("w=diag");
    let a = calc(&si, &model(&si));
    let scale = |mm: &DMatrix<T>| DMatrix::from_fn(mm.nrows(), mm.ncols(), |i, j| w[i] * mm[(i, j)]);
    let si2 = StatIn { n: si.n, m: si.m, p: si.p, phi: scale(&si.phi), d: si.d.iter().map(|d| scale(d)).collect(), w: None, y: DVector::from_fn(si.n, |i, _| w[i] * si.y[i]), c: si.c.clone(), twin: false };
    let b = calc(&si2, &model(&si2));
    match (a, b) {
        (Ok(a), Ok(b)) => {
            out.eq("C06.stats_chi2", "reduced_chi2".into(), a.reduced_chi2(), b.reduced_chi2());
            out.eq_mat("C06.stats_residuals", "weighted_residuals", &vec_to_mat(&a.weighted_residuals()), &vec_to_mat(&b.weighted_residuals()));
            out.eq_mat("C06.stats_covariance", "covariance", a.covariance_matrix(), b.covariance_matrix());
        }
        (Err(x), Err(y)) => out.fact("C06.stats_same_error", x == y, format!("{x} vs {y}")),
        (x, y) => out.fact("C06.stats_presence", false, format!("{:?} vs {:?}", x.map(|_| "Ok"), y.map(|_| "Ok"))),
    }
}
