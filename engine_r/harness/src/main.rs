//! Engine R harness: runs real varpro code on symbolic (`Sym`) or concrete (`f64`) scalars.
//!   rharness <sym|f64> <scenario> <out.json> [inputs=<file>] [key=value ...]
//! `sym`: prints the term arena, the path condition and the obligations as JSON.
//! `f64`: native run of the same scenario on the values in the inputs file (replay / translator validation):
//!        every obligation is evaluated numerically, every fact natively.
#![allow(non_snake_case, clippy::all, unused_macros)]
mod hs;
mod scen_core;
mod scen_fit;
mod scen_native;
mod scen_rel;
mod scen_routing;
mod scen_stats;
mod stub;

use hs::*;
use std::alloc::{GlobalAlloc, Layout, System};
use std::collections::HashMap;
use verif_sym::Sym;

/// Allocator that fills every fresh allocation with the poison byte 0xA5: a `Sym` read from memory
/// that was never written has the id 0xA5A5A5A5, which is not a valid arena index and is reported as
/// a read of uninitialised memory (C10: "every element is a computed value").
struct Poison;
unsafe impl GlobalAlloc for Poison {
    unsafe fn alloc(&self, l: Layout) -> *mut u8 {
        let p = System.alloc(l);
        if !p.is_null() {
            std::ptr::write_bytes(p, 0xA5, l.size());
        }
        p
    }
    unsafe fn dealloc(&self, p: *mut u8, l: Layout) {
        System.dealloc(p, l)
    }
    unsafe fn alloc_zeroed(&self, l: Layout) -> *mut u8 {
        System.alloc_zeroed(l)
    }
    unsafe fn realloc(&self, p: *mut u8, l: Layout, new_size: usize) -> *mut u8 {
        let np = self.alloc(Layout::from_size_align_unchecked(new_size, l.align()));
        if !np.is_null() {
            std::ptr::copy_nonoverlapping(p, np, l.size().min(new_size));
            System.dealloc(p, l);
        }
        np
    }
}
#[global_allocator]
static GLOBAL: Poison = Poison;

pub struct Cfg(pub HashMap<String, String>);
impl Cfg {
    pub fn usize(&self, k: &str, d: usize) -> usize {
        self.0.get(k).map(|v| v.parse().expect("usize config value")).unwrap_or(d)
    }
    pub fn opt_usize(&self, k: &str) -> Option<usize> {
        self.0.get(k).and_then(|v| v.parse().ok())
    }
    pub fn str(&self, k: &str, d: &str) -> String {
        self.0.get(k).cloned().unwrap_or_else(|| d.to_string())
    }
}

fn run_scenario<T: HS + scen_stats::NativeBand>(scenario: &str, cfg: &Cfg, out: &mut Out<T>) {
    match scenario {
        "core" => scen_core::run::<T>(cfg, out),
        "relw" => scen_rel::relw::<T>(cfg, out),
        "relmrhs" => scen_rel::relmrhs::<T>(cfg, out),
        "lin" => scen_rel::lin::<T>(cfg, out),
        "relpar" => scen_rel::relpar::<T>(cfg, out),
        "stats" => scen_stats::run::<T>(cfg, out),
        "relw_stats" => scen_stats::relw_stats::<T>(cfg, out),
        "routing" => scen_routing::run::<T>(cfg, out),
        "symfit" => scen_fit::run::<T>(cfg, out),
        "relfit" => scen_fit::relfit::<T>(cfg, out),
        "symfit2" => scen_fit::run2::<T>(cfg, out),
        _ => panic!("unknown scenario {scenario}"),
    }
}

fn main() {
    let args: Vec<String> = std::env::args().collect();
    if args.len() < 4 {
        eprintln!("usage: rharness <sym|f64> <scenario> <out.json> [key=value ...]");
        std::process::exit(2);
    }
    let (mode, scenario, outp) = (args[1].as_str(), args[2].as_str(), args[3].as_str());
    let mut cfg = HashMap::new();
    for a in &args[4..] {
        if let Some((k, v)) = a.split_once('=') {
            cfg.insert(k.to_string(), v.to_string());
        }
    }
    let cfg = Cfg(cfg);
    // inputs: lines "<name> <p/q>"
    let mut inputs: Vec<(String, String)> = vec![];
    if let Some(f) = cfg.0.get("inputs") {
        for line in std::fs::read_to_string(f).expect("inputs file").lines() {
            if let Some((n, v)) = line.trim().split_once(' ') {
                inputs.push((n.to_string(), v.trim().to_string()));
            }
        }
    }
    let threads = cfg.usize("threads", 0);
    if threads > 0 {
        rayon::ThreadPoolBuilder::new().num_threads(threads).build_global().expect("rayon pool");
    }
    let body = match mode {
        "sym" => {
            verif_sym::reset_arena();
            verif_sym::with_arena(|a| {
                for (n, v) in &inputs {
                    if let Some(q) = verif_sym::parse_q(v) {
                        a.inputs.insert(n.clone(), q);
                    }
                }
                a.approx_sqrt = cfg.usize("approx_sqrt", 0) == 1;
                a.round_shadows = cfg.usize("round_shadows", 0) == 1;
            });
            let mut out = Out::<Sym>::new();
            let res = std::panic::catch_unwind(std::panic::AssertUnwindSafe(|| run_scenario::<Sym>(scenario, &cfg, &mut out)));
            let mut unsupported = String::new();
            if let Err(e) = res {
                let msg = e.downcast_ref::<String>().cloned().or_else(|| e.downcast_ref::<&str>().map(|s| s.to_string())).unwrap_or_default();
                if msg.starts_with("VERIF-UNSUPPORTED") {
                    unsupported = msg;
                } else {
                    out.fact("no_panic", false, format!("panic during symbolic run: {msg}"));
                }
            }
            if !unsupported.is_empty() {
                out.notes.push(unsupported.clone());
                out.obligations.clear();
                out.facts.clear();
                out.facts.push(("UNSUPPORTED".to_string(), false, unsupported));
            }
            stub::hook_obligations_from_log(&mut out);
            let (garbage, concretised, undefined) = verif_sym::with_arena(|a| (a.garbage_reads, a.concretised, a.undefined_decisions));
            format!(
                "{{\"mode\":\"sym\",\"scenario\":{},\"undefined_decisions\":{undefined},\"garbage_reads\":{},\"concretised\":{},\"vars\":{},\"trace\":{},\"out\":{},\"nodes\":{}}}",
                verif_sym::json_str(scenario),
                garbage,
                concretised,
                verif_sym::dump_vars_json(),
                verif_sym::dump_trace_json(0),
                out.to_json(),
                verif_sym::dump_nodes_json()
            )
        }
        "f64" => {
            let mut m = HashMap::new();
            for (n, v) in &inputs {
                if let Some(q) = verif_sym::parse_q(v) {
                    m.insert(n.clone(), verif_sym::q_to_f64(&q));
                }
            }
            *F64_INPUTS.lock().unwrap() = Some(m);
            let mut out = Out::<f64>::new();
            let res = std::panic::catch_unwind(std::panic::AssertUnwindSafe(|| match scenario {
                "nonfinite" => scen_native::nonfinite(&cfg, &mut out),
                "faultfit" => scen_native::faultfit(&cfg, &mut out),
                "faultsweep" => scen_native::faultsweep(&cfg, &mut out),
                "shapes" => scen_native::shapes(&cfg, &mut out),
                "bandpanic" => scen_native::bandpanic(&cfg, &mut out),
                "scalecore" => scen_native::scalecore(&cfg, &mut out),
                "buildcase" => scen_native::buildcase(&cfg, &mut out),
                "statsfit" => scen_native::statsfit(&cfg, &mut out),
                "fitmap" => scen_native::fitmap(&cfg, &mut out),
                "fwsmap" => {
                    let mut c2 = Cfg(cfg.0.clone());
                    c2.0.insert("stats".into(), "1".into());
                    scen_native::fitmap(&c2, &mut out)
                }
                _ => run_scenario::<f64>(scenario, &cfg, &mut out),
            }));
            if let Err(e) = res {
                let msg = e.downcast_ref::<String>().cloned().or_else(|| e.downcast_ref::<&str>().map(|s| s.to_string())).unwrap_or_default();
                if msg.starts_with("VERIF-UNSUPPORTED") {
                    out.obligations.clear();
                    out.facts.clear();
                    out.notes.push(msg);
                } else {
                    out.fact("no_panic", false, format!("panic during native run: {msg}"));
                }
            }
            format!("{{\"mode\":\"f64\",\"scenario\":{},\"out\":{}}}", verif_sym::json_str(scenario), out.to_json())
        }
        "f32" => {
            // native single-precision run of the generic scenarios (the properties quantify over both scalar widths)
            let mut m = HashMap::new();
            for (n, v) in &inputs {
                if let Some(q) = verif_sym::parse_q(v) {
                    m.insert(n.clone(), verif_sym::q_to_f64(&q));
                }
            }
            *F64_INPUTS.lock().unwrap() = Some(m);
            let mut out = Out::<f32>::new();
            let res = std::panic::catch_unwind(std::panic::AssertUnwindSafe(|| run_scenario::<f32>(scenario, &cfg, &mut out)));
            if let Err(e) = res {
                let msg = e.downcast_ref::<String>().cloned().or_else(|| e.downcast_ref::<&str>().map(|s| s.to_string())).unwrap_or_default();
                if msg.starts_with("VERIF-UNSUPPORTED") {
                    out.obligations.clear();
                    out.facts.clear();
                    out.notes.push(msg);
                } else {
                    out.fact("no_panic", false, format!("panic during native f32 run: {msg}"));
                }
            }
            format!("{{\"mode\":\"f32\",\"scenario\":{},\"out\":{}}}", verif_sym::json_str(scenario), out.to_json())
        }
        _ => panic!("mode"),
    };
    std::fs::write(outp, body).expect("write output");
}
