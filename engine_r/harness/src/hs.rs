//! The scalar abstraction of the harness: every scenario is generic over `T: HS` and is instantiated
//! with `Sym` (symbolic execution) and with `f64` (native replay of solver models / translator validation).
use nalgebra::{DMatrix, DVector};
use std::collections::HashMap;
use std::sync::Mutex;
use verif_sym::{Sym, Q};

pub static F64_INPUTS: Mutex<Option<HashMap<String, f64>>> = Mutex::new(None);

pub trait HS: nalgebra::RealField + num_traits::Float + num_traits::FromPrimitive + Copy + Send + Sync + 'static {
    const SYM: bool;
    fn var(name: &str, dn: i64, dd: i64) -> Self;
    fn ratio(n: i64, d: i64) -> Self;
    fn ufun(name: &str, args: &[Self]) -> Self;
    /// JSON representation: node id for `Sym`, number for `f64`
    fn repr(self) -> String;
    /// concrete (shadow) value without recording anything
    fn peek(self) -> f64;
    fn garbage(self) -> bool;
    fn s_abs(self) -> Self;
    fn as_sym(self) -> Option<Sym>;
}

impl HS for Sym {
    const SYM: bool = true;
    fn var(name: &str, dn: i64, dd: i64) -> Sym {
        Sym::var(name, Q::new(dn.into(), dd.into()))
    }
    fn ratio(n: i64, d: i64) -> Sym {
        Sym::ratio(n, d)
    }
    fn ufun(name: &str, args: &[Sym]) -> Sym {
        Sym::fun(name, args)
    }
    fn repr(self) -> String {
        if self.is_garbage() {
            "-1".to_string()
        } else {
            self.0.to_string()
        }
    }
    fn peek(self) -> f64 {
        self.sh()
    }
    fn garbage(self) -> bool {
        self.is_garbage() || matches!(self.node(), verif_sym::Node::Fun(ref f, _) if f == "GARBAGE")
    }
    fn s_abs(self) -> Sym {
        Sym::s_abs(self)
    }
    fn as_sym(self) -> Option<Sym> {
        Some(self)
    }
}

impl HS for f64 {
    const SYM: bool = false;
    fn var(name: &str, dn: i64, dd: i64) -> f64 {
        let g = F64_INPUTS.lock().unwrap();
        g.as_ref().and_then(|m| m.get(name).copied()).unwrap_or(dn as f64 / dd as f64)
    }
    fn ratio(n: i64, d: i64) -> f64 {
        n as f64 / d as f64
    }
    fn ufun(name: &str, args: &[f64]) -> f64 {
        // a fixed concrete interpretation of the uninterpreted symbols (used for replay only)
        let mut h: u64 = 1469598103934665603;
        for b in name.bytes() {
            h = (h ^ b as u64).wrapping_mul(1099511628211);
        }
        let mut acc = ((h % 1000) as f64) / 977.0 + 0.25;
        for (i, a) in args.iter().enumerate() {
            acc = acc * 0.5 + (a * (1.0 + i as f64 * 0.37 + ((h >> (i + 3)) % 7) as f64 * 0.11)).sin() + 0.3 * a;
        }
        acc
    }
    fn repr(self) -> String {
        if self.is_finite() {
            format!("{:e}", self)
        } else {
            format!("\"{}\"", self)
        }
    }
    fn peek(self) -> f64 {
        self
    }
    fn garbage(self) -> bool {
        false
    }
    fn s_abs(self) -> f64 {
        self.abs()
    }
    fn as_sym(self) -> Option<Sym> {
        None
    }
}

pub struct Obl {
    pub name: String,
    /// (label, lhs repr, rhs repr)
    pub eqs: Vec<(String, String, String)>,
    /// extra assumptions that hold for this obligation group only: (lhs repr, op, rhs repr)
    pub given: Vec<(String, String, String)>,
    /// inequality obligations: (label, lhs repr, op, rhs repr)
    pub ineqs: Vec<(String, String, String, String)>,
    /// generalisation points for this group only (see `Out::cuts`)
    pub cuts: Vec<String>,
}
pub struct Out<T: HS> {
    pub obligations: Vec<Obl>,
    /// concrete facts on this path: (name, holds, detail)
    pub facts: Vec<(String, bool, String)>,
    /// assumptions: (lhs repr, op, rhs repr)
    pub assumes: Vec<(String, String, String)>,
    pub notes: Vec<String>,
    /// generalisation points: terms the solver may treat as free variables (sound for proving; e.g. the parameters the
    /// optimizer arrived at -- what is claimed about the state at alpha-hat holds for every alpha-hat)
    pub cuts: Vec<String>,
    _p: std::marker::PhantomData<T>,
}
impl<T: HS> Out<T> {
    pub fn new() -> Self {
        Out { obligations: vec![], facts: vec![], assumes: vec![], notes: vec![], cuts: vec![], _p: Default::default() }
    }
    /// the obligation group with this name (created on first use; groups are merged by name)
    pub fn obl(&mut self, name: &str) -> &mut Obl {
        if let Some(i) = self.obligations.iter().position(|o| o.name == name) {
            return &mut self.obligations[i];
        }
        self.obligations.push(Obl { name: name.to_string(), eqs: vec![], given: vec![], ineqs: vec![], cuts: vec![] });
        self.obligations.last_mut().unwrap()
    }
    pub fn eq(&mut self, name: &str, label: String, lhs: T, rhs: T) {
        if lhs.garbage() || rhs.garbage() {
            self.fact(&format!("{name}:no-garbage"), false, format!("{label}: uninitialised element"));
        }
        let (l, r) = (lhs.repr(), rhs.repr());
        self.obl(name).eqs.push((label, l, r));
    }
    /// inequality obligation `lhs <= rhs`
    pub fn le(&mut self, name: &str, label: String, lhs: T, rhs: T) {
        let (l, r) = (lhs.repr(), rhs.repr());
        self.obl(name).ineqs.push((label, l, "<=".to_string(), r));
    }
    pub fn obligations_push_raw(&mut self, name: &str, label: String, lhs: String, rhs: String) {
        self.obl(name).eqs.push((label, lhs, rhs));
    }
    pub fn eq_mat(&mut self, name: &str, what: &str, lhs: &DMatrix<T>, rhs: &DMatrix<T>) {
        if lhs.shape() != rhs.shape() {
            self.fact(&format!("{name}:shape"), false, format!("{what}: shape {:?} vs expected {:?}", lhs.shape(), rhs.shape()));
            return;
        }
        for j in 0..lhs.ncols() {
            for i in 0..lhs.nrows() {
                self.eq(name, format!("{what}[{i},{j}]"), lhs[(i, j)], rhs[(i, j)]);
            }
        }
    }
    /// an assumption local to the obligation group `name` (which must be the group currently being filled)
    pub fn given(&mut self, name: &str, lhs: T, op: &str, rhs: T) {
        let g = (lhs.repr(), op.to_string(), rhs.repr());
        let o = self.obl(name);
        if !o.given.contains(&g) {
            o.given.push(g);
        }
    }
    pub fn cut_for(&mut self, name: &str, x: T) {
        let r = x.repr();
        let o = self.obl(name);
        if !o.cuts.contains(&r) {
            o.cuts.push(r);
        }
    }
    pub fn cut(&mut self, x: T) {
        let r = x.repr();
        if !self.cuts.contains(&r) {
            self.cuts.push(r);
        }
    }
    pub fn fact(&mut self, name: &str, holds: bool, detail: String) {
        self.facts.push((name.to_string(), holds, detail));
    }
    pub fn assume(&mut self, lhs: T, op: &str, rhs: T) {
        self.assumes.push((lhs.repr(), op.to_string(), rhs.repr()));
    }
    pub fn to_json(&self) -> String {
        use verif_sym::json_str;
        let mut o = String::from("{\"obligations\":[");
        for (i, ob) in self.obligations.iter().enumerate() {
            if i > 0 {
                o.push(',');
            }
            o.push_str(&format!("{{\"name\":{},\"eqs\":[", json_str(&ob.name)));
            for (k, (l, a, b)) in ob.eqs.iter().enumerate() {
                if k > 0 {
                    o.push(',');
                }
                o.push_str(&format!("[{},{},{}]", json_str(l), a, b));
            }
            o.push_str("],\"given\":[");
            for (k, (a, op, b)) in ob.given.iter().enumerate() {
                if k > 0 {
                    o.push(',');
                }
                o.push_str(&format!("[{},{},{}]", a, json_str(op), b));
            }
            o.push_str("],\"cuts\":[");
            o.push_str(&ob.cuts.join(","));
            o.push_str("],\"ineqs\":[");
            for (k, (l, a, op, b)) in ob.ineqs.iter().enumerate() {
                if k > 0 {
                    o.push(',');
                }
                o.push_str(&format!("[{},{},{},{}]", json_str(l), a, json_str(op), b));
            }
            o.push_str("]}");
        }
        o.push_str("],\"facts\":[");
        for (i, (n, h, d)) in self.facts.iter().enumerate() {
            if i > 0 {
                o.push(',');
            }
            o.push_str(&format!("[{},{},{}]", json_str(n), h, json_str(d)));
        }
        o.push_str("],\"assumes\":[");
        for (i, (a, op, b)) in self.assumes.iter().enumerate() {
            if i > 0 {
                o.push(',');
            }
            o.push_str(&format!("[{},{},{}]", a, json_str(op), b));
        }
        o.push_str("],\"cuts\":[");
        o.push_str(&self.cuts.join(","));
        o.push_str("],\"notes\":[");
        for (i, n) in self.notes.iter().enumerate() {
            if i > 0 {
                o.push(',');
            }
            o.push_str(&json_str(n));
        }
        o.push_str("]}");
        o
    }
}

pub fn mat_from_view<T: HS, I: Iterator<Item = T>>(r: usize, c: usize, it: I) -> DMatrix<T> {
    DMatrix::from_iterator(r, c, it)
}
pub fn vec_to_mat<T: HS>(v: &DVector<T>) -> DMatrix<T> {
    DMatrix::from_iterator(v.nrows(), 1, v.iter().cloned())
}

impl HS for f32 {
    const SYM: bool = false;
    fn var(name: &str, dn: i64, dd: i64) -> f32 {
        <f64 as HS>::var(name, dn, dd) as f32
    }
    fn ratio(n: i64, d: i64) -> f32 {
        n as f32 / d as f32
    }
    fn ufun(name: &str, args: &[f32]) -> f32 {
        let a: Vec<f64> = args.iter().map(|x| *x as f64).collect();
        <f64 as HS>::ufun(name, &a) as f32
    }
    fn repr(self) -> String {
        <f64 as HS>::repr(self as f64)
    }
    fn peek(self) -> f64 {
        self as f64
    }
    fn garbage(self) -> bool {
        false
    }
    fn s_abs(self) -> f32 {
        self.abs()
    }
    fn as_sym(self) -> Option<Sym> {
        None
    }
}
