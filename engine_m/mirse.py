"""Engine M: symbolic execution of rustc's MIR text (`-Zunpretty=mir`) with z3.

Values: usize -> 64-bit bit-vectors, bool -> Bool, everything else -> `Obj` (an aggregate with a symbolic
identity, an optionally known variant and lazily materialised fields).  Calls are dispatched to
summaries (exact for Option/Result/Try plumbing, uninterpreted for numerics, nondeterministic-by-contract
for the model trait) or, for functions of the crate that are in the dump and loop-free, interpreted
recursively.  All paths are enumerated (fork on every switchInt / summary case split) with solver
feasibility checks.  Anything the interpreter does not understand raises `Unsupported` (-> no verdict)."""
import copy, itertools, re, sys
import z3

Val = z3.DeclareSort("Val")
disc_fn = z3.Function("disc", Val, z3.IntSort())
_fresh = itertools.count()

INT_TYPES = {"usize", "u64", "isize", "i64", "u32", "i32", "u8", "u16", "i8", "i16", "u128", "i128"}
VARIANT_INDEX = {"None": 0, "Some": 1, "Ok": 0, "Err": 1, "Continue": 0, "Break": 1, "Unit": 0, "Diagonal": 1}


class Unsupported(Exception):
    pass


class Obj:
    """aggregate / opaque value"""

    def __init__(self, tag, variant=None):
        self.tag = tag
        self.id = z3.Const(f"{re.sub(r'[^A-Za-z0-9_]', '_', tag)[:24]}!{next(_fresh)}", Val)
        self.variant = variant          # known variant name (or None)
        self.fields = {}                # (variant or None, index or field name) -> value
        self.meta = {}

    def __repr__(self):
        return f"<{self.tag}{':' + self.variant if self.variant else ''} {self.id}>"

    def __deepcopy__(self, memo):
        o = Obj.__new__(Obj)
        memo[id(self)] = o
        o.tag, o.id, o.variant, o.meta = self.tag, self.id, self.variant, dict(self.meta)
        o.fields = {k: copy.deepcopy(v, memo) for k, v in self.fields.items()}
        return o


class Cell:
    """a reference to a scalar local"""

    def __init__(self, path, local):
        self.path, self.local = path, local


def is_z3(v):
    return isinstance(v, z3.ExprRef)


def fresh_for_type(ty, tag="v"):
    ty = (ty or "").strip()
    if ty in INT_TYPES:
        return z3.BitVec(f"{tag}!{next(_fresh)}", 64)
    if ty == "bool":
        return z3.Bool(f"{tag}!{next(_fresh)}")
    return Obj(tag + ":" + ty[:40])


# ---------------------------------------------------------------------------------------------
# parsing
# ---------------------------------------------------------------------------------------------
class Fn:
    def __init__(self, header, body):
        self.header = header
        self.blocks = {}
        self.types = {}
        self.cleanup = set()
        for m in re.finditer(r"^\s+let (?:mut )?(_\d+): (.+);$", body, re.M):
            self.types[m.group(1)] = m.group(2)
        hm = re.match(r"^fn (.*?)\((.*)\) -> (.+) \{$", header, re.S)
        self.name = hm.group(1) if hm else header
        self.ret_type = hm.group(3) if hm else ""
        self.args = []
        if hm:
            for a in split_top(hm.group(2), ","):
                am = re.match(r"^\s*(_\d+): (.+)$", a, re.S)
                if am:
                    self.args.append(am.group(1))
                    self.types.setdefault(am.group(1), am.group(2).strip())
        cur = None
        for line in body.split("\n"):
            m = re.match(r"^\s{4}(bb\d+)( \(cleanup\))?: \{$", line)
            if m:
                cur = m.group(1)
                self.blocks[cur] = []
                if m.group(2):
                    self.cleanup.add(cur)
                continue
            if cur and re.match(r"^\s{4}\}$", line):
                cur = None
                continue
            if cur and line.strip():
                self.blocks[cur].append(line.strip())


def load(path):
    txt = open(path).read()
    fns = {}
    for m in re.finditer(r"^(fn .*?\{)\n(.*?)^\}\n", txt, re.M | re.S):
        fns[m.group(1)] = Fn(m.group(1), m.group(2))
    return fns


def split_top(s, sep):
    out, depth, cur = [], 0, ""
    i = 0
    while i < len(s):
        ch = s[i]
        if ch in "([{":
            depth += 1
        elif ch in ")]}":
            depth -= 1
        elif ch == "<":
            depth += 1
        elif ch == ">" and not (i > 0 and s[i - 1] in "-="):
            depth -= 1
        if ch == sep and depth == 0:
            out.append(cur)
            cur = ""
        else:
            cur += ch
        i += 1
    if cur.strip():
        out.append(cur)
    return [x.strip() for x in out]


def match_paren(s, i):
    assert s[i] == "("
    d = 0
    for j in range(i, len(s)):
        if s[j] == "(":
            d += 1
        elif s[j] == ")":
            d -= 1
            if d == 0:
                return j
    raise Unsupported("unbalanced: " + s[:80])


def split_call(call):
    """`path::<..>::name(args)` -> (callee, args string); args are the LAST balanced paren group"""
    if not call.endswith(")"):
        raise Unsupported("call " + call[:80])
    depth = 0
    for i in range(len(call) - 1, -1, -1):
        if call[i] == ")":
            depth += 1
        elif call[i] == "(":
            depth -= 1
            if depth == 0:
                return call[:i], call[i + 1:-1]
    raise Unsupported("call " + call[:80])


# ---------------------------------------------------------------------------------------------
# paths
# ---------------------------------------------------------------------------------------------
class Path:
    """one symbolic execution path: a stack of frames (local environments), a path condition and a log"""

    def __init__(self):
        self.frames = [{}]
        self.pc = []
        self.log = []
        self.panic = None

    @property
    def env(self):
        return self.frames[-1]

    def clone(self):
        p = Path()
        memo = {}
        p.frames = [{k: copy.deepcopy(v, memo) for k, v in fr.items()} for fr in self.frames]
        p.pc = list(self.pc)
        p.log = copy.deepcopy(self.log, memo)
        p.panic = self.panic
        return p


class Machine:
    def __init__(self, fns, summaries, assumptions=None, timeout_ms=5000, max_paths=4000):
        self.fns = fns
        self.summaries = summaries
        self.timeout_ms = timeout_ms
        self.queries = 0
        self.solver_s = 0.0
        self.max_paths = max_paths
        self.global_assumptions = assumptions or []
        self.unknown_calls = set()

    # ---- solver
    def feasible(self, pc):
        import time
        s = z3.Solver()
        s.set("timeout", self.timeout_ms)
        s.add(self.global_assumptions)
        s.add(pc)
        t0 = time.time()
        r = s.check()
        self.queries += 1
        self.solver_s += time.time() - t0
        if r == z3.unknown:
            raise Unsupported("solver returned unknown on a path-feasibility query")
        return r == z3.sat

    def find(self, pattern):
        hits = [f for h, f in self.fns.items() if re.search(pattern, h)]
        if len(hits) != 1:
            raise Unsupported(f"function pattern {pattern!r} matches {len(hits)} MIR bodies")
        return hits[0]

    # ---- places
    def _parse_place(self, s):
        """returns a list of steps: [('local', name), ('deref',), ('field', idx, type), ('downcast', Variant)]"""
        s = s.strip()
        if re.match(r"^_\d+$", s):
            return [("local", s)]
        if not s.startswith("("):
            raise Unsupported("place " + s[:80])
        j = match_paren(s, 0)
        if j != len(s) - 1:
            raise Unsupported("place " + s[:80])
        inner = s[1:j].strip()
        if inner.startswith("*"):
            return self._parse_place(inner[1:]) + [("deref",)]
        if inner.startswith("("):
            k = match_paren(inner, 0)
            base, rest = inner[:k + 1], inner[k + 1:]
        else:
            m = re.match(r"^(_\d+)(.*)$", inner, re.S)
            if not m:
                raise Unsupported("place " + s[:80])
            base, rest = m.group(1), m.group(2)
        steps = self._parse_place(base)
        rest = rest.strip()
        if rest == "":
            return steps
        m = re.match(r"^as (\w+)$", rest)
        if m:
            return steps + [("downcast", m.group(1))]
        m = re.match(r"^\.(\d+): (.+)$", rest, re.S)
        if m:
            return steps + [("field", int(m.group(1)), m.group(2).strip())]
        raise Unsupported("place " + s[:80])

    def read_place(self, s, path, fn):
        steps = self._parse_place(s)
        cur = None
        variant = None
        for st in steps:
            if st[0] == "local":
                if st[1] not in path.env:
                    path.env[st[1]] = fresh_for_type(fn.types.get(st[1], ""), st[1])
                cur = path.env[st[1]]
            elif st[0] == "deref":
                variant = None
            elif st[0] == "downcast":
                variant = st[1]
                if isinstance(cur, Obj) and cur.variant is None:
                    cur.variant = variant
                    if variant in VARIANT_INDEX:
                        path.pc.append(disc_fn(cur.id) == VARIANT_INDEX[variant])
            elif st[0] == "field":
                if not isinstance(cur, Obj):
                    raise Unsupported(f"field access on non-aggregate in {s[:80]}")
                key = (variant or cur.variant, st[1])
                if key not in cur.fields:
                    # tuple-like / struct field: try without variant
                    alt = (None, st[1])
                    if alt in cur.fields:
                        key = alt
                    else:
                        cur.fields[key] = fresh_for_type(st[2], f"{cur.tag[:12]}.{st[1]}")
                cur = cur.fields[key]
                variant = None
        return cur

    def write_place(self, s, val, path, fn):
        steps = self._parse_place(s)
        if len(steps) == 1:
            path.env[steps[0][1]] = val
            return
        # navigate to the parent
        cur = None
        variant = None
        for st in steps[:-1]:
            if st[0] == "local":
                if st[1] not in path.env:
                    path.env[st[1]] = fresh_for_type(fn.types.get(st[1], ""), st[1])
                cur = path.env[st[1]]
            elif st[0] == "deref":
                pass
            elif st[0] == "downcast":
                variant = st[1]
            elif st[0] == "field":
                key = (variant or cur.variant, st[1])
                if key not in cur.fields and (None, st[1]) in cur.fields:
                    key = (None, st[1])
                if key not in cur.fields:
                    cur.fields[key] = fresh_for_type(st[2], f"{cur.tag[:12]}.{st[1]}")
                cur = cur.fields[key]
                variant = None
        last = steps[-1]
        if last[0] == "field":
            if not isinstance(cur, Obj):
                raise Unsupported("store into non-aggregate " + s[:80])
            key = (variant or cur.variant, last[1])
            if key not in cur.fields and (None, last[1]) in cur.fields:
                key = (None, last[1])
            cur.fields[key] = val
            cur.meta.setdefault("stores", []).append(last[1])
        elif last[0] == "deref":
            # *ref = val : replace the contents of the referenced aggregate
            if isinstance(cur, Obj) and isinstance(val, Obj):
                cur.tag, cur.id, cur.variant, cur.fields = val.tag, val.id, val.variant, val.fields
            else:
                raise Unsupported("store through scalar reference " + s[:80])
        else:
            raise Unsupported("store " + s[:80])

    # ---- operands / rvalues
    def operand(self, o, path, fn):
        o = o.strip()
        if o.startswith("copy ") or o.startswith("move "):
            return self.read_place(o[5:], path, fn)
        if o.startswith("const "):
            c = o[6:].strip()
            if c in ("true", "false"):
                return z3.BoolVal(c == "true")
            m = re.match(r"^(-?\d+)_(\w+)$", c)
            if m and m.group(2) in INT_TYPES:
                return z3.BitVecVal(int(m.group(1)), 64)
            ob = Obj("const:" + c[:60])
            ob.meta["const"] = c
            return ob
        if o.startswith("&"):
            inner = re.sub(r"^&(raw )?(mut |const )?", "", o)
            return self.read_place(inner, path, fn)
        if not (o.startswith("(") or re.match(r"^_\d+$", o)):
            # function items and other constants printed without `const`
            ob = Obj("item:" + o[-60:])
            ob.meta["const"] = o
            return ob
        return self.read_place(o, path, fn)

    def rvalue(self, r, path, fn, dst_type=""):
        r = r.strip()
        m = re.match(r"^(\w+)\((.+)\)$", r, re.S)
        BIN = ("Eq", "Ne", "Le", "Lt", "Ge", "Gt", "Add", "Sub", "Mul", "AddWithOverflow", "SubWithOverflow", "MulWithOverflow", "BitAnd", "BitOr")
        if m and m.group(1) in BIN:
            args = split_top(m.group(2), ",")
            if len(args) == 2:
                a, b = self.operand(args[0], path, fn), self.operand(args[1], path, fn)
                op = m.group(1)
                if z3.is_bool(a) and z3.is_bool(b):
                    return {"Eq": a == b, "Ne": a != b, "BitAnd": z3.And(a, b), "BitOr": z3.Or(a, b)}[op]
                if not (z3.is_bv(a) and z3.is_bv(b)):
                    raise Unsupported("binary op on non-integers: " + r[:100])
                if op == "Eq":
                    return a == b
                if op == "Ne":
                    return a != b
                if op == "Le":
                    return z3.ULE(a, b)
                if op == "Lt":
                    return z3.ULT(a, b)
                if op == "Ge":
                    return z3.UGE(a, b)
                if op == "Gt":
                    return z3.UGT(a, b)
                if op == "Add":
                    return a + b
                if op == "Sub":
                    return a - b
                if op == "Mul":
                    return a * b
                t = Obj("tuple")
                t.variant = None
                if op == "AddWithOverflow":
                    t.fields[(None, 0)], t.fields[(None, 1)] = a + b, z3.Not(z3.BVAddNoOverflow(a, b, False))
                elif op == "SubWithOverflow":
                    t.fields[(None, 0)], t.fields[(None, 1)] = a - b, z3.ULT(a, b)
                elif op == "MulWithOverflow":
                    t.fields[(None, 0)], t.fields[(None, 1)] = a * b, z3.Not(z3.BVMulNoOverflow(a, b, False))
                return t
        m = re.match(r"^Not\((.+)\)$", r)
        if m:
            a = self.operand(m.group(1), path, fn)
            return z3.Not(a) if z3.is_bool(a) else ~a
        m = re.match(r"^discriminant\((.+)\)$", r)
        if m:
            v = self.read_place(m.group(1), path, fn)
            if not isinstance(v, Obj):
                raise Unsupported("discriminant of scalar")
            if v.variant is not None and v.variant in VARIANT_INDEX:
                return ("disc", v, VARIANT_INDEX[v.variant])
            return ("disc", v, None)
        if r.startswith("copy ") or r.startswith("move ") or r.startswith("const ") or r.startswith("&"):
            m2 = re.match(r"^(.*) as (\S+) \((\w+)\)$", r)
            if m2:
                v = self.operand(m2.group(1), path, fn)
                return v if (is_z3(v) and z3.is_bv(v)) else fresh_for_type(m2.group(2), "cast")
            return self.operand(r, path, fn)
        # tuple
        if r.startswith("(") and r.endswith(")") and match_paren(r, 0) == len(r) - 1 and not re.match(r"^\(\*|^\(_\d+\.|^\(\(", r):
            t = Obj("tuple")
            for i, a in enumerate(split_top(r[1:-1], ",")):
                t.fields[(None, i)] = self.operand(a, path, fn)
            return t
        # struct aggregate:  Path { f: v, .. }
        m = re.match(r"^(.+?) \{ (.*) \}$", r, re.S)
        if m and not r.startswith("{closure") and not r.startswith("{coroutine"):
            head = m.group(1)
            ob = Obj("struct:" + re.sub(r"<.*", "", head)[-40:])
            vm = re.match(r"^(.*)::(\w+)$", re.sub(r"::<.*?>(?=::|$)", "", head))
            ob.meta["head"] = head
            ob.variant = None
            hv = re.sub(r"<.*>", "", head).split("::")[-1]
            ob.meta["name"] = hv
            ob.meta["names"] = {}
            for i, fv in enumerate(split_top(m.group(2), ",")):
                fm = re.match(r"^(\w+): (.+)$", fv, re.S)
                if not fm:
                    raise Unsupported("struct field " + fv[:60])
                # MIR prints the fields of a struct aggregate in declaration order: position = field index
                ob.fields[(None, i)] = self.operand(fm.group(2), path, fn)
                ob.meta["names"][fm.group(1)] = i
            return ob
        if r.startswith("{closure"):
            ob = Obj("closure")
            m = re.match(r"^\{closure@(.*?)\}( \{ (.*) \})?$", r, re.S)
            ob.meta["closure"] = m.group(1) if m else r
            return ob
        # enum aggregate: Enum::<..>::Variant(args) | Path::Variant
        m = re.match(r"^(.+?)::(\w+)(\((.*)\))?$", r, re.S)
        if m:
            variant = m.group(2)
            ob = Obj("enum:" + re.sub(r"<.*", "", m.group(1))[-30:], variant=variant)
            if variant in VARIANT_INDEX:
                path.pc.append(disc_fn(ob.id) == VARIANT_INDEX[variant])
            if m.group(4):
                for i, a in enumerate(split_top(m.group(4), ",")):
                    ob.fields[(variant, i)] = self.operand(a, path, fn)
            return ob
        raise Unsupported("rvalue " + r[:120])

    # ---- execution of one function (returns list of finished paths)
    def run_fn(self, fn, args, path, depth=0):
        """symbolically executes `fn` with argument values `args` in a new frame pushed on `path`; returns a list
        of (path, return value) for every feasible returning path (the frame is popped again); panicking
        paths are collected in self.panics"""
        if depth > 8:
            raise Unsupported("call depth")
        frame = {"__visits": {}}
        for name, v in zip(fn.args, args):
            frame[name] = v
        path.frames.append(frame)
        base_depth = len(path.frames)
        results = []
        work = [("bb0", path)]
        steps_total = 0
        while work:
            bb, p = work.pop()
            while True:
                steps_total += 1
                if steps_total > 20000 or len(results) + len(work) > self.max_paths:
                    raise Unsupported("step/path budget exceeded in " + fn.name[:60])
                if bb in fn.cleanup:
                    break
                nxt = None
                visits = p.env["__visits"]
                visits[bb] = visits.get(bb, 0) + 1
                if visits[bb] > 3:
                    raise Unsupported(f"loop at {bb} in {fn.name[:60]} (loops are outside this engine)")
                for st in fn.blocks[bb]:
                    st = st.rstrip(";")
                    if re.match(r"^(StorageLive|StorageDead|nop|FakeRead|PlaceMention|AscribeUserType|Retag|Coverage|ConstEvalCounter)", st):
                        continue
                    m = re.match(r"^goto -> (bb\d+)$", st)
                    if m:
                        nxt = m.group(1)
                        break
                    if st == "return":
                        ret = p.env.get("_0")
                        p.frames.pop()
                        results.append((p, ret))
                        nxt = "END"
                        break
                    if st == "unreachable" or st.startswith("resume"):
                        nxt = "END"
                        break
                    m = re.match(r"^drop\(.*\) -> \[return: (bb\d+)", st)
                    if m:
                        nxt = m.group(1)
                        break
                    m = re.match(r"^assert\((!?)(.+?), \"(.*?)\".*\) -> \[success: (bb\d+)", st)
                    if m:
                        c = self.operand(m.group(2), p, fn)
                        ok = z3.Not(c) if m.group(1) == "!" else c
                        if self.feasible(p.pc + [z3.Not(ok)]):
                            v = p.clone()
                            v.pc.append(z3.Not(ok))
                            v.panic = m.group(3)
                            v.log.append(("panic", m.group(3), fn.name[-60:]))
                            self.panics.append(v)
                        p.pc = p.pc + [ok]
                        nxt = m.group(4)
                        break
                    m = re.match(r"^switchInt\((.+?)\) -> \[(.+)\]$", st)
                    if m:
                        x = self.operand(m.group(1), p, fn)
                        arms = []
                        for arm in m.group(2).split(", "):
                            k, tgt = arm.split(": ")
                            arms.append((k, tgt))
                        branches = []
                        if isinstance(x, tuple) and x[0] == "disc":
                            _, ob, known = x
                            if known is not None:
                                tgt = next((t for k, t in arms if k != "otherwise" and int(k) == known), None) or next(t for k, t in arms if k == "otherwise")
                                branches = [(None, tgt)]
                            else:
                                listed = []
                                for k, tgt in arms:
                                    if k == "otherwise":
                                        branches.append((z3.And([disc_fn(ob.id) != v for v in listed]) if listed else z3.BoolVal(True), tgt))
                                    else:
                                        listed.append(int(k))
                                        branches.append((disc_fn(ob.id) == int(k), tgt))
                        else:
                            listed = []
                            for k, tgt in arms:
                                if k == "otherwise":
                                    cond = z3.And([z3.Not(c) for c in listed]) if listed else z3.BoolVal(True)
                                else:
                                    if z3.is_bool(x):
                                        cond = x if int(k) != 0 else z3.Not(x)
                                    elif z3.is_bv(x):
                                        cond = x == z3.BitVecVal(int(k), 64)
                                    else:
                                        raise Unsupported("switchInt on " + str(type(x)))
                                    listed.append(cond)
                                branches.append((cond, tgt))
                        feas = [(cond, tgt) for cond, tgt in branches if cond is None or self.feasible(p.pc + [cond])]
                        for i, (cond, tgt) in enumerate(feas):
                            q = p if i == len(feas) - 1 else p.clone()
                            if cond is not None:
                                q.pc = q.pc + [cond]
                            work.append((tgt, q))
                        nxt = "END"
                        break
                    m = re.match(r"^(.+?) = (.+?) -> \[return: (bb\d+)(?:, unwind.*)?\]$", st, re.S)
                    if m and m.group(2).rstrip().endswith(")"):
                        dst, call, ret = m.group(1), m.group(2), m.group(3)
                        callee, argstr = split_call(call)
                        argv = [self.operand(a, p, fn) for a in split_top(argstr, ",")]
                        outs = self.call(callee, argv, p, fn, dst, depth)
                        for (q, val) in outs:
                            assert len(q.frames) == base_depth, "frame stack out of sync"
                            self.write_place(dst, val, q, fn)
                            work.append((ret, q))
                        nxt = "END"
                        break
                    m = re.match(r"^(.+?) = (.+)$", st, re.S)
                    if m:
                        val = self.rvalue(m.group(2), p, fn, fn.types.get(m.group(1).strip(), ""))
                        if isinstance(val, tuple) and val[0] == "disc":
                            p.env[m.group(1).strip()] = val
                        else:
                            self.write_place(m.group(1), val, p, fn)
                        continue
                    raise Unsupported("statement " + st[:160])
                if nxt == "END" or nxt is None:
                    break
                bb = nxt
        return results

    def call(self, callee, args, path, fn, dst, depth):
        for pat, handler in self.summaries:
            if re.search(pat, callee):
                return handler(self, callee, args, path, fn, dst, depth)
        self.unknown_calls.add(re.sub(r"<.*", "", callee)[:80])
        path.log.append(("call", re.sub(r"::<.*?>(?=::|$)", "", callee)[:80]))
        dty = fn.types.get(dst.strip(), "")
        return [(path, fresh_for_type(dty, "ret"))]

    def execute(self, pattern, args=None):
        fn = self.find(pattern)
        self.panics = []
        p = Path()
        if args is None:
            args = [fresh_for_type(fn.types.get(a, ""), a) for a in fn.args]
        p.frames[0]["__args"] = args
        res = self.run_fn(fn, args, p)
        return fn, res
