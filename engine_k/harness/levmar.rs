//! Kani harnesses, child module of `varpro::solvers::levmar`.
//! The SVD of nalgebra is environment here: the patched nalgebra calls `verif_svd_hook_kani` at the top
//! of `SVD::try_new_unordered`; harnesses replace it with a contract stub via `#[kani::stub]`.
use super::*;
use nalgebra::{DMatrix, DVector, Dyn, OMatrix, OVector};

#[derive(Debug)]
pub struct StubErr;
impl std::fmt::Display for StubErr {
    fn fmt(&self, _f: &mut std::fmt::Formatter<'_>) -> std::fmt::Result {
        Ok(())
    }
}
impl std::error::Error for StubErr {}

/// hand-written model with scripted failures and a fixed basis matrix
pub struct KModel {
    phi: DMatrix<f64>,
    dphi: DMatrix<f64>,
    params: DVector<f64>,
    np: usize,
    fail_set: bool,
    fail_eval: bool,
    fail_deriv: bool,
}
impl SeparableNonlinearModel for KModel {
    type ScalarType = f64;
    type Error = StubErr;
    fn parameter_count(&self) -> usize {
        self.np
    }
    fn base_function_count(&self) -> usize {
        self.phi.ncols()
    }
    fn output_len(&self) -> usize {
        self.phi.nrows()
    }
    fn set_params(&mut self, p: OVector<f64, Dyn>) -> Result<(), StubErr> {
        if self.fail_set {
            return Err(StubErr);
        }
        self.params = p;
        Ok(())
    }
    fn params(&self) -> OVector<f64, Dyn> {
        self.params.clone()
    }
    fn eval(&self) -> Result<OMatrix<f64, Dyn, Dyn>, StubErr> {
        if self.fail_eval {
            Err(StubErr)
        } else {
            Ok(self.phi.clone())
        }
    }
    fn eval_partial_deriv(&self, _k: usize) -> Result<OMatrix<f64, Dyn, Dyn>, StubErr> {
        if self.fail_deriv {
            Err(StubErr)
        } else {
            Ok(self.dphi.clone())
        }
    }
}

/// SVD contract stub, concrete variant: returns the exact factorisation of a 1x1 / Nx1 matrix with
/// non-negative entries in its first column direction e_0 (harnesses only hand such matrices over)
pub unsafe fn svd_stub_concrete(_tid: std::any::TypeId, data: *const u8, nrows: usize, ncols: usize, u: *mut u8, s: *mut u8, vt: *mut u8, _eps: *const u8, _max_niter: usize) -> bool {
    let d = data as *const f64;
    let (u, s, vt) = (u as *mut f64, s as *mut f64, vt as *mut f64);
    // harness matrices are (a, 0, ..., 0)^T with a >= 0 : U = e_0, sigma = a, V = 1
    assert!(ncols == 1);
    let mut i = 0;
    while i < nrows {
        *u.add(i) = if i == 0 { 1.0 } else { 0.0 };
        i += 1;
    }
    *s = *d;
    *vt = 1.0;
    true
}

/// SVD contract stub, precondition variant: asserts that every entry handed to the SVD is finite
/// (nalgebra's SVD panics with "Singular value was NaN" for M >= 2 and does not terminate for M >= 3
/// otherwise) and then cuts the path: what happens after the SVD is explored by other harnesses.
pub unsafe fn svd_stub_precondition(_tid: std::any::TypeId, data: *const u8, nrows: usize, ncols: usize, _u: *mut u8, _s: *mut u8, _vt: *mut u8, _eps: *const u8, _max_niter: usize) -> bool {
    let d = data as *const f64;
    let mut i = 0;
    while i < nrows * ncols {
        assert!((*d.add(i)).is_finite(), "SVD precondition: finite input");
        i += 1;
    }
    kani::cover!(true, "reachable: svd called with finite input");
    kani::assume(false);
    true
}

/// SVD contract stub, arbitrary-result variant: finite input asserted, arbitrary factors returned
pub unsafe fn svd_stub_arbitrary(_tid: std::any::TypeId, data: *const u8, nrows: usize, ncols: usize, u: *mut u8, s: *mut u8, vt: *mut u8, _eps: *const u8, _max_niter: usize) -> bool {
    let k = if nrows < ncols { nrows } else { ncols };
    let d = data as *const f64;
    let mut i = 0;
    while i < nrows * ncols {
        assert!((*d.add(i)).is_finite(), "SVD precondition: finite input");
        i += 1;
    }
    let (u, s, vt) = (u as *mut f64, s as *mut f64, vt as *mut f64);
    let mut i = 0;
    while i < nrows * k {
        *u.add(i) = kani::any();
        i += 1;
    }
    let mut i = 0;
    while i < k {
        let v: f64 = kani::any();
        kani::assume(v >= 0.0);
        *s.add(i) = v;
        i += 1;
    }
    let mut i = 0;
    while i < k * ncols {
        *vt.add(i) = kani::any();
        i += 1;
    }
    true
}

fn kmodel(n: usize, a: f64, fail_set: bool, fail_eval: bool, fail_deriv: bool) -> KModel {
    let mut phi = DMatrix::from_element(n, 1, 0.0);
    phi[(0, 0)] = a;
    KModel { phi, dphi: DMatrix::from_element(n, 1, 1.0), params: DVector::from_vec(vec![1.0]), np: 1, fail_set, fail_eval, fail_deriv }
}

/// a problem in a directly constructed state (no SVD needed): N = 2, M = 1, basis (2,0)^T, data `y`,
/// cache either absent or the exact solution for that data
fn fabricated(y0: f64, y1: f64, with_cache: bool, fail_eval: bool, fail_deriv: bool) -> LevMarProblem<KModel, false, false> {
    let model = kmodel(2, 2.0, false, fail_eval, fail_deriv);
    let cached = if with_cache {
        // A = (2,0)^T = U S V^T with U = e_0, S = 2, V = 1; c = y0/2; r = (0, y1)
        Some(CachedCalculations {
            current_residuals: DMatrix::from_column_slice(2, 1, &[0.0, y1]),
            current_svd: SVD { u: Some(DMatrix::from_column_slice(2, 1, &[1.0, 0.0])), v_t: Some(DMatrix::from_element(1, 1, 1.0)), singular_values: DVector::from_element(1, 2.0) },
            linear_coefficients: DMatrix::from_element(1, 1, y0 / 2.0),
        })
    } else {
        None
    };
    LevMarProblem { Y_w: DMatrix::from_column_slice(2, 1, &[y0, y1]), model, svd_epsilon: 1e-12, weights: Weights::default(), cached }
}

/// C04 / C09: the real `fit` through the real Levenberg-Marquardt driver, from directly constructed
/// states: (a) no cache (the model failed to evaluate) -> LM sees `None` residuals -> `Err(User)` carrying
/// the problem; (b) zero residuals -> `Ok(ResidualsZero)`.  In both: Ok <=> termination.was_successful(),
/// the returned problem is the one handed in (parameters, data, cache presence).
#[kani::proof]
#[kani::unwind(6)]
fn k_fit_maps_termination() {
    let with_cache: bool = kani::any();
    let problem = fabricated(4.0, 0.0, with_cache, !with_cache, false);
    let r = LevMarSolver::default().fit(problem);
    let (ok, fr) = match r {
        Ok(f) => (true, f),
        Err(f) => (false, f),
    };
    assert!(ok == fr.minimization_report.termination.was_successful());
    assert!(ok == fr.was_successful());
    assert!(fr.nonlinear_parameters()[0] == 1.0);
    assert!(fr.problem.Y_w[(0, 0)] == 4.0 && fr.problem.Y_w[(1, 0)] == 0.0);
    assert!(fr.problem.cached.is_some() == with_cache);
    if !with_cache {
        assert!(!ok);
        assert!(fr.linear_coefficients().is_none());
        assert!(fr.best_fit().is_none());
        assert!(matches!(fr.minimization_report.termination, levenberg_marquardt::TerminationReason::User(_)));
    } else {
        assert!(ok);
        assert!(matches!(fr.minimization_report.termination, levenberg_marquardt::TerminationReason::ResidualsZero));
        assert!(fr.linear_coefficients().unwrap()[0] == 2.0);
    }
    kani::cover!(ok, "reachable: Ok");
    kani::cover!(!ok, "reachable: Err");
}

/// C04 / C09: non-zero residuals and a failing derivative: LM asks for the Jacobian, gets None, and
/// `fit` returns Err(User) with the problem (residuals still those of the reported parameters).
#[kani::proof]
#[kani::unwind(6)]
fn k_fit_err_on_failing_derivative() {
    let problem = fabricated(4.0, 3.0, true, false, true);
    assert!(problem.residuals().is_some());
    assert!(problem.jacobian().is_none());
    let r = LevMarSolver::default().fit(problem);
    match r {
        Ok(_) => assert!(false),
        Err(fr) => {
            assert!(!fr.was_successful());
            assert!(matches!(fr.minimization_report.termination, levenberg_marquardt::TerminationReason::User(_)));
            let res = fr.problem.residuals().unwrap();
            assert!(res[0] == 0.0 && res[1] == 3.0);
            kani::cover!(true, "reachable: Err");
        }
    }
}

/// C09: fault logic of `set_params` from a state with a filled cache, for every failing combination:
/// afterwards the cache is gone, nothing is exposed, params() is what the model reports.  (The case in which
/// nothing fails belongs to k_update_fills_cache.)
#[kani::proof]
#[kani::unwind(6)]
#[kani::stub(nalgebra::linalg::verif_svd_hook_kani, svd_stub_flag)]
fn k_set_params_fault_logic() {
    let mut problem = fabricated(4.0, 3.0, true, false, false);
    let (fs, fe): (bool, bool) = (kani::any(), kani::any());
    kani::assume(fs || fe);
    problem.model.fail_set = fs;
    problem.model.fail_eval = fe;
    let newp: f64 = kani::any();
    problem.set_params(&DVector::from_vec(vec![newp]));
    // (an SVD computed for a rejected state fails an assertion inside the stub; computing and then discarding it would
    // not violate the property, so the runner reports such a failure only if the native replay `core hist=2`
    // shows stale values -- otherwise it is "no verdict")
    assert!(problem.cached.is_none());
    assert!(problem.residuals().is_none());
    assert!(problem.jacobian().is_none());
    assert!(problem.linear_coefficients().is_none());
    let p = problem.params();
    if fs {
        assert!(p[0] == 1.0);
    } else {
        assert!(p[0].to_bits() == newp.to_bits());
    }
    kani::cover!(fs && !fe, "reachable: rejected");
    kani::cover!(!fs && fe, "reachable: eval failed");
}

static mut SVD_CALLED: bool = false;
/// SVD stub that records the call and cuts the path
pub unsafe fn svd_stub_flag(_tid: std::any::TypeId, _data: *const u8, _nrows: usize, _ncols: usize, _u: *mut u8, _s: *mut u8, _vt: *mut u8, _eps: *const u8, _max_niter: usize) -> bool {
    SVD_CALLED = true;
    assert!(false, "the SVD was computed although the model rejected the update / failed to evaluate");
    true
}

/// C09 / C01 (deep): a successful update from a state WITHOUT cache fills the cache with the solution
/// for the new basis matrix (concrete SVD contract), 2x1.
#[kani::proof]
#[kani::unwind(6)]
#[kani::stub(nalgebra::linalg::verif_svd_hook_kani, svd_stub_concrete)]
fn k_update_fills_cache() {
    let mut problem = fabricated(4.0, 3.0, false, false, false);
    problem.set_params(&DVector::from_vec(vec![5.0]));
    assert!(problem.cached.is_some());
    assert!(problem.params()[0] == 5.0);
    let c = problem.linear_coefficients().unwrap();
    assert!(c[0] == 2.0);
    let r = problem.residuals().unwrap();
    assert!(r[0] == 0.0 && r[1] == 3.0);
    kani::cover!(true, "reachable");
}

/// C08: no non-finite weighted basis matrix reaches the SVD, for all f64 bit patterns of a 2x2 basis
/// matrix and of the weights, at construction and on a later update.
#[kani::proof]
#[kani::unwind(6)]
#[kani::stub(nalgebra::linalg::verif_svd_hook_kani, svd_stub_precondition)]
fn k_nonfinite_never_reaches_svd() {
    let a: [f64; 4] = kani::any();
    let w: [f64; 2] = kani::any();
    let use_w: bool = kani::any();
    let model = KModel { phi: DMatrix::from_column_slice(2, 2, &a), dphi: DMatrix::from_element(2, 2, 1.0), params: DVector::from_vec(vec![1.0]), np: 1, fail_set: false, fail_eval: false, fail_deriv: false };
    let mut b = LevMarProblemBuilder::new(model).observations(DVector::from_element(2, 1.0));
    if use_w {
        b = b.weights(DVector::from_column_slice(&w));
    }
    let problem = b.build();
    // (with the cut in the stub only executions in which the SVD is never called get here)
    match problem {
        Ok(p) => {
            assert!(p.cached.is_none());
            assert!(p.residuals().is_none());
            kani::cover!(true, "reachable: non-finite basis matrix rejected without calling the SVD");
        }
        Err(_) => assert!(false),
    }
}

/// C08 (deep): with arbitrary SVD factors, nothing downstream of the SVD panics (all f64 values, 2x2x1)
#[kani::proof]
#[kani::unwind(6)]
#[kani::stub(nalgebra::linalg::verif_svd_hook_kani, svd_stub_arbitrary)]
fn k_no_panic_downstream_of_svd() {
    let a: [f64; 4] = kani::any();
    let y: [f64; 2] = kani::any();
    let eps: f64 = kani::any();
    let model = KModel { phi: DMatrix::from_column_slice(2, 2, &a), dphi: DMatrix::from_element(2, 2, 1.0), params: DVector::from_vec(vec![1.0]), np: 1, fail_set: false, fail_eval: false, fail_deriv: false };
    let problem = LevMarProblemBuilder::new(model).observations(DVector::from_column_slice(&y)).epsilon(eps).build();
    if let Ok(p) = problem {
        let _ = p.residuals();
        let _ = p.jacobian();
        let _ = p.linear_coefficients();
        kani::cover!(p.cached.is_some(), "reachable: cache present");
    }
}

/// C03 / C10: `copy_matrix_to_column` overwrites the whole Jacobian column in column-major order (for every
/// previous content of the target) and touches nothing else
#[kani::proof]
#[kani::unwind(14)]
fn k_copy_matrix_to_column() {
    let a: [u32; 6] = kani::any();
    let init: [u32; 12] = kani::any();
    let src = DMatrix::<u32>::from_column_slice(3, 2, &a);
    let mut jac = DMatrix::<u32>::from_column_slice(6, 2, &init);
    {
        let mut col = jac.column_mut(1);
        copy_matrix_to_column(src, &mut col);
    }
    for k in 0..6 {
        assert!(jac[(k, 1)] == a[k]);
        assert!(jac[(k, 0)] == init[k]);
    }
    kani::cover!(jac[(5, 1)] == 7, "reachable");
}

/// C11: converting a problem to its sequential form moves every field unchanged
#[kani::proof]
#[kani::unwind(6)]
fn k_into_sequential_preserves_state() {
    let with_cache: bool = kani::any();
    let mut problem = fabricated(4.0, 3.0, with_cache, false, false);
    let e: f64 = kani::any();
    problem.svd_epsilon = e;
    problem.weights = Weights::diagonal(DVector::from_vec(vec![1.0, 2.0]));
    let r0 = problem.residuals();
    let q = problem.into_sequential();
    assert!(q.svd_epsilon.to_bits() == e.to_bits());
    assert!(q.cached.is_some() == with_cache);
    assert!(q.residuals() == r0);
    assert!(q.Y_w[(1, 0)] == 3.0 && q.Y_w[(0, 0)] == 4.0);
    assert!(matches!(q.weights, Weights::Diagonal(_)));
    assert!(q.params()[0] == 1.0);
    if with_cache {
        assert!(q.linear_coefficients().unwrap()[0] == 2.0);
    }
    kani::cover!(with_cache, "reachable: cache present");
}



/// C04 / C09 (quick): the real `fit` through the real Levenberg-Marquardt driver on a problem whose cache is
/// absent (the model failed to evaluate): Err(User) carrying the problem unchanged
#[kani::proof]
#[kani::unwind(6)]
fn k_fit_err_on_absent_cache() {
    let problem = fabricated(4.0, 0.0, false, true, false);
    let r = LevMarSolver::default().fit(problem);
    match r {
        Ok(_) => assert!(false),
        Err(fr) => {
            assert!(!fr.was_successful());
            assert!(matches!(fr.minimization_report.termination, levenberg_marquardt::TerminationReason::User(_)));
            assert!(fr.problem.cached.is_none());
            assert!(fr.linear_coefficients().is_none() && fr.best_fit().is_none());
            assert!(fr.nonlinear_parameters()[0] == 1.0);
            assert!(fr.problem.Y_w[(0, 0)] == 4.0);
            kani::cover!(true, "reachable: Err");
        }
    }
}

/// C04 (thorough): zero residuals => Ok(ResidualsZero)
#[kani::proof]
#[kani::unwind(6)]
fn k_fit_ok_on_zero_residuals() {
    let problem = fabricated(4.0, 0.0, true, false, false);
    let r = LevMarSolver::default().fit(problem);
    match r {
        Ok(fr) => {
            assert!(fr.was_successful());
            assert!(matches!(fr.minimization_report.termination, levenberg_marquardt::TerminationReason::ResidualsZero));
            assert!(fr.linear_coefficients().unwrap()[0] == 2.0);
            kani::cover!(true, "reachable: Ok");
        }
        Err(_) => assert!(false),
    }
}

/// C08 for the parallel flavour (separate `set_params` implementation): no non-finite matrix reaches the SVD
#[cfg(feature = "parallel")]
#[kani::proof]
#[kani::unwind(6)]
#[kani::stub(nalgebra::linalg::verif_svd_hook_kani, svd_stub_precondition)]
fn k_nonfinite_never_reaches_svd_parallel() {
    let a: [f64; 4] = kani::any();
    let w: [f64; 2] = kani::any();
    let use_w: bool = kani::any();
    let model = KModel { phi: DMatrix::from_column_slice(2, 2, &a), dphi: DMatrix::from_element(2, 2, 1.0), params: DVector::from_vec(vec![1.0]), np: 1, fail_set: false, fail_eval: false, fail_deriv: false };
    let mut b = LevMarProblemBuilder::new_parallel(model).observations(DVector::from_element(2, 1.0));
    if use_w {
        b = b.weights(DVector::from_column_slice(&w));
    }
    match b.build() {
        Ok(p) => {
            assert!(p.cached.is_none());
            assert!(p.residuals().is_none());
            kani::cover!(true, "reachable: non-finite basis matrix rejected without calling the SVD");
        }
        Err(_) => assert!(false),
    }
}
