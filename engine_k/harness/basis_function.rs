//! Kani harnesses, child module of `varpro::basis_function`: slice -> argument dispatch for arities 1..10.
use super::*;
use nalgebra::DVector;

macro_rules! arity_harness {
    ($name:ident, $n:literal, $unwind:literal, $($a:ident),+) => {
        /// C16: argument i of the user function receives params[i], for all parameter values
        #[kani::proof]
        #[kani::unwind($unwind)]
        fn $name() {
            let p: [u32; $n] = kani::any();
            let x = DVector::<u32>::from_vec(vec![7u32]);
            let f = |_x: &DVector<u32>, $($a: u32),+| DVector::from_vec(vec![$($a),+]);
            let r = BasisFunction::eval(&f, &x, &p);
            assert!(r.len() == $n);
            for i in 0..$n {
                assert!(r[i] == p[i]);
            }
            kani::cover!(r[0] == 3, "reachable");
        }
    };
}
arity_harness!(k_arity_1, 1, 4, a0);
arity_harness!(k_arity_2, 2, 5, a0, a1);
arity_harness!(k_arity_3, 3, 6, a0, a1, a2);
arity_harness!(k_arity_4, 4, 7, a0, a1, a2, a3);
arity_harness!(k_arity_5, 5, 8, a0, a1, a2, a3, a4);
arity_harness!(k_arity_6, 6, 9, a0, a1, a2, a3, a4, a5);
arity_harness!(k_arity_7, 7, 10, a0, a1, a2, a3, a4, a5, a6);
arity_harness!(k_arity_8, 8, 11, a0, a1, a2, a3, a4, a5, a6, a7);
arity_harness!(k_arity_9, 9, 12, a0, a1, a2, a3, a4, a5, a6, a7, a8);
arity_harness!(k_arity_10, 10, 13, a0, a1, a2, a3, a4, a5, a6, a7, a8, a9);
