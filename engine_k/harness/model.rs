//! Kani harnesses, child module of `varpro::model`: a directly constructed `SeparableModel<u8>`
//! (functions only; derivative maps empty because hashing a non-empty map is out of Kani's reach here).
use super::*;
use super::model_basis_function::ModelBasisFunction;
use nalgebra::{DMatrix, DVector};
use std::collections::HashMap;

pub fn fixed_random_state() -> std::hash::RandomState {
    unsafe { std::mem::transmute::<[u64; 2], std::hash::RandomState>([1u64, 2u64]) }
}

fn mk_model(lens: [usize; 2], vals: [u8; 2], nx: usize) -> SeparableModel<u8> {
    let (l0, l1, v0, v1) = (lens[0], lens[1], vals[0], vals[1]);
    let f0 = ModelBasisFunction::<u8> { function: Box::new(move |_x, p: &[u8]| DVector::from_element(l0, p[0].wrapping_add(v0))), derivatives: HashMap::default() };
    let f1 = ModelBasisFunction::<u8> { function: Box::new(move |_x, p: &[u8]| DVector::from_element(l1, p[1].wrapping_add(v1))), derivatives: HashMap::default() };
    SeparableModel { parameter_names: vec![String::new(), String::new()], basefunctions: vec![f0, f1], x_vector: DVector::from_element(nx, 0u8), current_parameters: DVector::from_vec(vec![1u8, 2u8]) }
}

/// C17 + C10: wrong parameter counts are rejected and leave the parameters intact; eval is Ok iff every
/// function returns len(x) elements, has shape N x M and every element is the function's value (fresh
/// heap memory is nondeterministic in CBMC, so an un-overwritten element fails the assertion);
/// derivative index >= P is an error, never a panic.
fn model_eval_case(lens: [usize; 2], nx: usize) {
    let vals: [u8; 2] = kani::any();
    let mut model = mk_model(lens, vals, nx);
    let which: u8 = kani::any();
    let newp: [u8; 3] = kani::any();
    let r = match which % 3 {
        0 => model.set_params(DVector::from_column_slice(&newp[..2])),
        1 => model.set_params(DVector::from_column_slice(&newp[..3])),
        _ => model.set_params(DVector::from_column_slice(&newp[..1])),
    };
    let good = which % 3 == 0;
    assert!(r.is_ok() == good);
    // (the property asks for an error value; its variant / payload is an implementation detail)
    let p = model.params();
    assert!(p.len() == 2);
    if good {
        assert!(p[0] == newp[0] && p[1] == newp[1]);
    } else {
        assert!(p[0] == 1 && p[1] == 2);
    }
    assert!(model.parameter_count() == 2 && model.base_function_count() == 2 && model.output_len() == nx);
    match model.eval() {
        Ok(m) => {
            assert!(lens[0] == nx && lens[1] == nx);
            assert!(m.nrows() == nx && m.ncols() == 2);
            for i in 0..nx {
                assert!(m[(i, 0)] == p[0].wrapping_add(vals[0]));
                assert!(m[(i, 1)] == p[1].wrapping_add(vals[1]));
            }
        }
        Err(e) => {
            assert!(lens[0] != nx || lens[1] != nx);
            let _ = e;
        }
    }
    kani::cover!(true, "reachable: after eval");
    let k: usize = kani::any();
    kani::assume(k >= 2);
    assert!(model.eval_partial_deriv(k).is_err());
    // parameters with empty derivative maps: the derivative matrix is exactly zero
    let j: usize = kani::any();
    kani::assume(j < 2);
    match model.eval_partial_deriv(j) {
        Ok(d) => {
            assert!(d.nrows() == nx && d.ncols() == 2);
            for i in 0..nx {
                assert!(d[(i, 0)] == 0 && d[(i, 1)] == 0);
            }
        }
        Err(_) => assert!(false),
    }
}

#[kani::proof]
#[kani::unwind(5)]
#[kani::stub(std::hash::RandomState::new, fixed_random_state)]
fn k_model_eval_22() {
    model_eval_case([2, 2], 2)
}
#[kani::proof]
#[kani::unwind(5)]
#[kani::stub(std::hash::RandomState::new, fixed_random_state)]
fn k_model_eval_23() {
    model_eval_case([2, 3], 2)
}
#[kani::proof]
#[kani::unwind(5)]
#[kani::stub(std::hash::RandomState::new, fixed_random_state)]
fn k_model_eval_12() {
    model_eval_case([1, 2], 2)
}
#[kani::proof]
#[kani::unwind(5)]
#[kani::stub(std::hash::RandomState::new, fixed_random_state)]
fn k_model_eval_20() {
    model_eval_case([2, 0], 2)
}
#[kani::proof]
#[kani::unwind(6)]
#[kani::stub(std::hash::RandomState::new, fixed_random_state)]
fn k_model_eval_33() {
    model_eval_case([3, 3], 3)
}
