//! Kani harnesses, child module of `varpro::statistics`.
use super::*;
use crate::model::SeparableModel;
use nalgebra::{DMatrix, DVector};

static mut PPF_ARGS: (f64, f64) = (0.0, 0.0);
static mut PPF_RET: f64 = 0.0;
static mut PPF_CALLS: u32 = 0;
/// contract stub for the Student-t quantile of the `distrs` crate: records its arguments, returns an
/// arbitrary value chosen by the harness
fn ppf_stub<T: Into<f64>>(x: f64, n: T) -> f64 {
    unsafe {
        PPF_ARGS = (x, n.into());
        PPF_CALLS += 1;
        PPF_RET
    }
}

fn stats_with(sigma: &[f64], dof: usize) -> FitStatistics<SeparableModel<f64>> {
    FitStatistics::<SeparableModel<f64>> {
        covariance_matrix: DMatrix::from_element(1, 1, 1.0),
        weighted_residuals: DVector::from_element(sigma.len(), 0.0),
        reduced_chi2: 1.0,
        linear_coefficient_count: 1,
        degrees_of_freedom: dof,
        nonlinear_parameter_count: 0,
        unscaled_confidence_sigma: DVector::from_column_slice(sigma),
    }
}

/// C14 data flow: the quantile is looked up exactly once at ((p+1)/2, dof as f64) and entry i is t * sigma_i;
/// one entry per sample.  sigma from probe values so that the oracle needs no second multiplier.
#[kani::proof]
#[kani::unwind(5)]
#[kani::stub(distrs::StudentsT::ppf, ppf_stub)]
fn k_band_dataflow_f64() {
    let s: [f64; 3] = [1.0, 2.0, 0.0];
    let dof: usize = kani::any();
    kani::assume(dof >= 1 && dof < 100_000);
    let t: f64 = kani::any();
    kani::assume(t.is_finite());
    unsafe {
        PPF_RET = t;
        PPF_CALLS = 0;
    }
    let st = stats_with(&s, dof);
    let pi: u8 = kani::any();
    let (p, q) = match pi % 4 {
        0 => (0.5, 0.75),
        1 => (0.25, 0.625),
        2 => (0.875, 0.9375),
        _ => (0.0625, 0.53125),
    };
    let r = st.confidence_band_radius(p);
    assert!(r.nrows() == 3 && r.ncols() == 1);
    unsafe {
        assert!(PPF_CALLS == 1);
        assert!(PPF_ARGS.0 == q);
        assert!(PPF_ARGS.1 == dof as f64);
    }
    assert!(r[0] == t);
    assert!(r[1] == t + t);
    assert!(r[2] == 0.0);
    kani::cover!(r[1] == 4.0, "reachable");
}

/// C14 panic domain: EVERY probability outside (0,1) or non-finite is rejected by a panic (the code after
/// the call is unreachable: the cover below must be UNSATISFIABLE) ...
#[kani::proof]
#[kani::unwind(4)]
#[kani::stub(distrs::StudentsT::ppf, ppf_stub)]
#[kani::should_panic]
fn k_band_rejects_bad_probability() {
    let p: f64 = kani::any();
    kani::assume(!(p > 0.0 && p < 1.0));
    let st = stats_with(&[1.0], 3);
    let _ = st.confidence_band_radius(p);
    kani::cover!(true, "MUST-NOT: returned normally for a probability outside (0,1)");
}
/// ... and every probability inside (0,1) is accepted (no panic), for all f64 values
#[kani::proof]
#[kani::unwind(4)]
#[kani::stub(distrs::StudentsT::ppf, ppf_stub)]
fn k_band_accepts_open_interval() {
    let p: f64 = kani::any();
    kani::assume(p > 0.0 && p < 1.0);
    unsafe {
        PPF_RET = 2.0;
    }
    let st = stats_with(&[1.0], 3);
    let r = st.confidence_band_radius(p);
    assert!(r.nrows() == 1);
    kani::cover!(p == 0.5, "reachable");
}
/// C14 for ALL probabilities in (0,1) (every f64 bit pattern): the quantile is looked up exactly once, at
/// exactly ((p + 1) / 2, dof), and the single entry is t * sigma with sigma = 1
#[kani::proof]
#[kani::unwind(4)]
#[kani::stub(distrs::StudentsT::ppf, ppf_stub)]
fn k_band_quantile_argument_all_p() {
    let p: f64 = kani::any();
    kani::assume(p > 0.0 && p < 1.0);
    let t: f64 = kani::any();
    kani::assume(t.is_finite());
    unsafe {
        PPF_RET = t;
        PPF_CALLS = 0;
    }
    let dof: usize = kani::any();
    kani::assume(dof >= 1 && dof <= 64);
    let st = stats_with(&[1.0], dof);
    let r = st.confidence_band_radius(p);
    unsafe {
        assert!(PPF_CALLS == 1);
        assert!(PPF_ARGS.0 == (p + 1.0) / 2.0);
        assert!(PPF_ARGS.1 == dof as f64);
    }
    assert!(r.nrows() == 1 && r[0] == t);
    kani::cover!(p > 0.9999, "reachable: p close to 1");
    kani::cover!(p < 1e-300, "reachable: tiny p");
}

/// C14, f32, for ALL probabilities in (0,1): the quantile level is formed in f64 from the exactly widened p
/// ((p as f64 + 1) / 2), not in single precision
#[kani::proof]
#[kani::unwind(4)]
#[kani::stub(distrs::StudentsT::ppf, ppf_stub)]
fn k_band_quantile_argument_all_p_f32() {
    let p: f32 = kani::any();
    kani::assume(p > 0.0 && p < 1.0);
    unsafe {
        PPF_RET = 2.0;
        PPF_CALLS = 0;
    }
    let dof: usize = kani::any();
    kani::assume(dof >= 1 && dof <= 64);
    let st = FitStatistics::<SeparableModel<f32>> {
        covariance_matrix: DMatrix::from_element(1, 1, 1.0),
        weighted_residuals: DVector::from_element(1, 0.0),
        reduced_chi2: 1.0,
        linear_coefficient_count: 1,
        degrees_of_freedom: dof,
        nonlinear_parameter_count: 0,
        unscaled_confidence_sigma: DVector::from_column_slice(&[1.0f32]),
    };
    let r = st.confidence_band_radius(p);
    unsafe {
        assert!(PPF_CALLS == 1);
        assert!(PPF_ARGS.0 == (p as f64 + 1.0) / 2.0);
        assert!(PPF_ARGS.1 == dof as f64);
    }
    assert!(r.nrows() == 1 && r[0] == 2.0f32);
    kani::cover!(p > 0.999, "reachable: p close to 1");
}

/// non-decreasing in p given a non-decreasing quantile: radius = t * sigma with sigma >= 0 (f32 multiplier)
#[kani::proof]
fn k_band_monotone_in_t_f32() {
    let (t1, t2, sg): (f32, f32, f32) = (kani::any(), kani::any(), kani::any());
    kani::assume(t1.is_finite() && t2.is_finite() && sg.is_finite() && sg >= 0.0 && t1 <= t2);
    let (a, b) = (t1 * sg, t2 * sg);
    assert!(a <= b || a.is_nan() || b.is_nan());
    kani::cover!(a < b, "reachable");
}

/// C14, f32: the f64 quantile is multiplied in f64 and rounded once
#[kani::proof]
#[kani::unwind(4)]
#[kani::stub(distrs::StudentsT::ppf, ppf_stub)]
fn k_band_dataflow_f32() {
    let t: f64 = kani::any();
    kani::assume(t.is_finite());
    unsafe {
        PPF_RET = t;
        PPF_CALLS = 0;
    }
    let dof: usize = kani::any();
    kani::assume(dof >= 1 && dof < 1000);
    let st = FitStatistics::<SeparableModel<f32>> {
        covariance_matrix: DMatrix::from_element(1, 1, 1.0),
        weighted_residuals: DVector::from_element(2, 0.0),
        reduced_chi2: 1.0,
        linear_coefficient_count: 1,
        degrees_of_freedom: dof,
        nonlinear_parameter_count: 0,
        unscaled_confidence_sigma: DVector::from_column_slice(&[1.0f32, 2.0f32]),
    };
    let r = st.confidence_band_radius(0.5f32);
    assert!(r.nrows() == 2);
    unsafe {
        assert!(PPF_CALLS == 1 && PPF_ARGS.0 == 0.75 && PPF_ARGS.1 == dof as f64);
    }
    assert!(r[0].to_bits() == (t as f32).to_bits());
    assert!(r[1].to_bits() == ((t + t) as f32).to_bits());
    kani::cover!(r[0] == 1.5f32, "reachable");
}

/// C13: `extract_range` returns elements [start, end) in order; `concat_colwise` pastes columns
#[kani::proof]
#[kani::unwind(7)]
fn k_extract_concat_u32() {
    let a: [u32; 5] = kani::any();
    let v = DVector::<u32>::from_column_slice(&a);
    let r = extract_range(&v, Dyn(2), Dyn(5));
    assert!(r.nrows() == 3);
    assert!(r[0] == a[2] && r[1] == a[3] && r[2] == a[4]);
    let r0 = extract_range(&v, U0, Dyn(2));
    assert!(r0.nrows() == 2 && r0[0] == a[0] && r0[1] == a[1]);
    let e = extract_range(&v, Dyn(5), Dyn(5));
    assert!(e.nrows() == 0);
    let b: [u32; 4] = kani::any();
    let c: [u32; 2] = kani::any();
    let l = DMatrix::<u32>::from_column_slice(2, 2, &b);
    let rr = DMatrix::<u32>::from_column_slice(2, 1, &c);
    let m = concat_colwise(l, rr);
    assert!(m.nrows() == 2 && m.ncols() == 3);
    assert!(m[(0, 0)] == b[0] && m[(1, 0)] == b[1] && m[(0, 1)] == b[2] && m[(1, 1)] == b[3] && m[(0, 2)] == c[0] && m[(1, 2)] == c[1]);
    kani::cover!(m[(1, 2)] == 9, "reachable");
}
