//! Kani harnesses, child module of `varpro::util` (compiled only in the scratch overlay under cfg(kani)).
use super::*;
use nalgebra::{DMatrix, DVector, Dyn};

/// C02/C07/C10: `to_vector` stacks column after column: element (i, s) -> index s*N + i, every element written.
#[kani::proof]
#[kani::unwind(8)]
fn k_to_vector_u32() {
    let a: [u32; 6] = kani::any();
    let m = DMatrix::<u32>::from_column_slice(3, 2, &a);
    let v = to_vector(m);
    assert!(v.nrows() == 6 && v.ncols() == 1);
    for s in 0..2 {
        for i in 0..3 {
            assert!(v[s * 3 + i] == a[i + 3 * s]);
        }
    }
    kani::cover!(v[0] != v[5], "reachable: distinct elements");
}

/// C06: diagonal weights scale row i by w_i, bit for bit, for all f32 values (incl. NaN, inf, subnormals);
/// unit weights are the identity.
#[kani::proof]
#[kani::unwind(5)]
fn k_weights_mul_f32() {
    let w: [f32; 2] = kani::any();
    let a: [f32; 4] = kani::any();
    let W = Weights::diagonal(DVector::from_column_slice(&w));
    let A = DMatrix::from_column_slice(2, 2, &a);
    let R = &W * A;
    assert!(R.nrows() == 2 && R.ncols() == 2);
    for j in 0..2 {
        for i in 0..2 {
            let e = a[i + 2 * j] * w[i];
            assert!(R[(i, j)].to_bits() == e.to_bits() || (R[(i, j)].is_nan() && e.is_nan()));
        }
    }
    let unit_w: Weights<f32, Dyn> = Weights::default();
    let B = DMatrix::from_column_slice(2, 2, &a);
    let R2 = &unit_w * B;
    for k in 0..4 {
        assert!(R2.as_slice()[k].to_bits() == a[k].to_bits());
    }
    assert!(unit_w.is_size_correct_for_data_length(kani::any()));
    let n: usize = kani::any();
    assert!(W.is_size_correct_for_data_length(n) == (n == 2));
    kani::cover!(R[(1, 1)] == 6.0, "reachable: 2*3");
}

/// C06 (quick variant): weights from a constant probe set, matrix entries all f32 values
#[kani::proof]
#[kani::unwind(5)]
fn k_weights_mul_probe_f32() {
    let a: [f32; 4] = kani::any();
    let sel: [u8; 2] = kani::any();
    let pick = |k: u8| -> f32 {
        match k % 4 {
            0 => 1.0,
            1 => -2.0,
            2 => 0.5,
            _ => 0.0,
        }
    };
    let w = [pick(sel[0]), pick(sel[1])];
    let W = Weights::diagonal(DVector::from_column_slice(&w));
    let A = DMatrix::from_column_slice(2, 2, &a);
    let R = &W * A;
    for j in 0..2 {
        for i in 0..2 {
            let x = a[i + 2 * j];
            let e = match sel[i] % 4 {
                0 => x,
                1 => -(x + x),
                2 => x / 2.0,
                _ => x * 0.0,
            };
            assert!(R[(i, j)].to_bits() == e.to_bits() || (R[(i, j)].is_nan() && e.is_nan()));
        }
    }
    kani::cover!(R[(1, 0)] == -6.0, "reachable");
}
