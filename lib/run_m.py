"""Engine M property checks on the MIR of /repo's working tree."""
import os, re, json
import z3
from common import *
import engine_m as em
import mirse
from mirse import Obj, Unsupported, disc_fn

LIMIT = z3.BitVecVal(1 << 48, 64)


def model_assumptions(model):
    """the three counts of a model size real allocations: < 2^48 each"""
    return [z3.ULT(em.count_of(k, model), LIMIT) for k in ("output_len", "parameter_count", "base_function_count")] + \
           [z3.UGE(em.count_of(k, model), z3.BitVecVal(1, 64)) for k in ("output_len", "parameter_count", "base_function_count")]


def result_kind(ret):
    """classify a returned Result-like object: (kind, payload object)"""
    if not isinstance(ret, Obj):
        return ("?", None)
    if ret.variant in ("Ok", "Err"):
        return (ret.variant, ret.fields.get((ret.variant, 0)))
    return ("?", None)


def err_label(e):
    if isinstance(e, Obj):
        if e.tag == "converted-error":
            return "ModelEvaluation(converted model error)"
        return e.variant or e.meta.get("name") or e.tag
    return "?"


def check_unsat(m, pc, extra, what, small=()):
    """unsat = the obligation holds on this path; on sat a model with SMALL values of the terms in `small`
    is preferred (it has to be replayed natively)"""
    import time
    s = z3.Solver()
    s.set("timeout", 20000)
    s.add(m.global_assumptions)
    s.add(pc)
    s.add(extra)
    t0 = time.time()
    r = s.check()
    m.queries += 1
    m.solver_s += time.time() - t0
    if r == z3.unsat:
        return ("unsat", None)
    if r == z3.sat:
        mdl = s.model()
        for bound in (3, 6, 12):
            s.push()
            s.add([z3.ULE(t, z3.BitVecVal(bound, 64)) for t in small])
            if small and s.check() == z3.sat:
                mdl = s.model()
                s.pop()
                break
            s.pop()
        return ("sat", mdl)
    return ("unknown", None)


class MResult:
    def __init__(self, prop):
        self.prop = prop
        self.obligations = 0
        self.discharged = 0
        self.undischarged = []
        self.violations = []
        self.unconfirmed = []
        self.paths = 0
        self.samples = []
        self.functions = []
        self.tool_errors = []
        self.queries = 0
        self.solver_s = 0.0
        self.validated = 0
        self.transitions = 0

    def oblige(self, name, verdict, detail=""):
        self.obligations += 1
        if verdict == "unsat":
            self.discharged += 1
            if len(self.samples) < 8:
                self.samples.append({"obligation": name, "verdict": "unsat", "detail": detail[:300]})
        elif verdict == "unknown":
            self.undischarged.append((name, "unknown", detail[:200]))
        return verdict


def bvval(model, term):
    v = model.eval(term, model_completion=True)
    return v.as_long()


# ---------------------------------------------------------------------------------------------
# try_calculate: guard order, overflow, error kinds  (C12, C08)
# ---------------------------------------------------------------------------------------------
def check_try_calculate(res, fns, profile, h=None):
    summaries = em.COMMON + [
        (r"^model_function_jacobian::<", em.s_fork_result("model_function_jacobian")),
        (r"FromPrimitive>::from_usize$", em.s_fork_option("from_usize")),
        (r">::try_inverse$", em.s_fork_option("try_inverse")),
    ]
    m = mirse.Machine(fns, summaries)
    fn = m.find(r"^fn statistics::<impl.*>::try_calculate\(")
    model = Obj("model")
    args = [model] + [mirse.fresh_for_type(fn.types.get(a, ""), a) for a in fn.args[1:]]
    m.global_assumptions = model_assumptions(model)
    m.panics = []
    p = mirse.Path()
    p.frames[0]["__args"] = args
    results = m.run_fn(fn, args, p)
    res.functions.append(f"FitStatistics::try_calculate [{profile}]: {len(results)} returning paths, {len(m.panics)} reachable panics, calls havocked: {sorted(m.unknown_calls)[:6]}...")
    res.paths += len(results)
    N, M, P = (em.count_of(k, model) for k in ("output_len", "base_function_count", "parameter_count"))
    # (a) no reachable panic (overflow assertion)
    res.obligations += 1
    if not m.panics:
        res.discharged += 1
    for v in m.panics:
        _v, mdl = check_unsat(m, v.pc, [], "", small=(N, M, P))
        n, mm, pp = bvval(mdl, N), bvval(mdl, M), bvval(mdl, P)
        record_m_violation(res, h, "C12", f"try_calculate:panic:{profile}", f"reachable panic '{v.panic}' in try_calculate with N={n}, M={mm}, P={pp} [{profile} MIR]",
                           ("stats", dict(n=min(n, 6), m=min(mm, 4), p=min(pp, 4), w="none")), expect_fact="no_panic")
    # (b) per path: classification
    for (q, ret) in results:
        kind, pobj = result_kind(ret)
        payload = err_label(pobj) if kind == "Err" else pobj
        faults = [e for e in q.log if e[0] == "env" and e[1] == "model_function_jacobian" and not e[2]] + [e for e in q.log if e[0] == "model" and not e[3]]
        label = f"try_calculate[{profile}] path -> {kind}({payload})"
        if kind == "Ok":
            v, mdl = check_unsat(m, q.pc, [z3.ULE(N, M + P)], label, small=(N, M, P))
            res.oblige(label + ": Ok implies N > M+P", v)
            if v == "sat":
                n, mm, pp = bvval(mdl, N), bvval(mdl, M), bvval(mdl, P)
                record_m_violation(res, h, "C12", f"try_calculate:ok_underdetermined:{profile}", f"try_calculate returns Ok with N={n} <= M+P={mm + pp}",
                                   ("stats", dict(n=min(n, 6), m=min(mm, 4), p=min(pp, 4), w="none")), expect_fact="C12.underdetermined_gives_err")
        elif kind == "Err" and payload != "Underdetermined" and not faults:
            # without a model failure an under-determined problem must be reported as Underdetermined
            v, mdl = check_unsat(m, q.pc, [z3.ULE(N, M + P)], label, small=(N, M, P))
            res.oblige(label + ": other errors only when N > M+P or the model failed", v)
            if v == "sat":
                n, mm, pp = bvval(mdl, N), bvval(mdl, M), bvval(mdl, P)
                record_m_violation(res, h, "C12", f"try_calculate:wrong_error:{profile}", f"try_calculate returns Err({payload}) for an under-determined problem N={n}, M={mm}, P={pp}",
                                   ("stats", dict(n=min(n, 6), m=min(mm, 4), p=min(pp, 4), w="none")), expect_fact="C12.underdetermined_gives_err")
        elif kind == "Err" and payload == "Underdetermined":
            v, mdl = check_unsat(m, q.pc, [z3.UGT(N, M + P)], label, small=(N, M, P))
            res.oblige(label + ": Underdetermined only when N <= M+P", v)
            if v == "sat":
                n, mm, pp = bvval(mdl, N), bvval(mdl, M), bvval(mdl, P)
                record_m_violation(res, h, "C12", f"try_calculate:spurious_underdetermined:{profile}", f"try_calculate returns Underdetermined although N={n} > M+P={mm + pp}",
                                   ("stats", dict(n=min(n, 7), m=min(mm, 3), p=min(pp, 3), w="none")), expect_fact="C12.ok_when_determined")
        elif kind == "Err" and faults:
            res.oblige(label + ": model failure propagates as Err", "unsat")
        elif kind == "?":
            res.tool_errors.append(f"try_calculate[{profile}]: unclassified return value {ret}")
    # translator validation: concrete (N, M, P) for every path, run natively through the statistics scenario
    if h is not None:
        six = z3.BitVecVal(6, 64)
        for (q, ret) in results:
            kind, pobj = result_kind(ret)
            lab = err_label(pobj) if kind == "Err" else "Ok"
            if lab not in ("Ok", "Underdetermined"):
                continue
            s = z3.Solver()
            s.add(m.global_assumptions)
            s.add(q.pc)
            s.add(z3.ULE(N, six), z3.ULE(M, z3.BitVecVal(2, 64)), z3.ULE(P, z3.BitVecVal(2, 64)))
            if s.check() != z3.sat:
                continue
            mdl = s.model()
            cfg = dict(n=bvval(mdl, N), m=bvval(mdl, M), p=bvval(mdl, P), w="none")
            d = h.run("f64", "stats", cfg, timeout=30)
            res.validated += 1
            if d.get("crash"):
                res.tool_errors.append(f"try_calculate[{profile}]: native run crashed for {cfg}")
                continue
            facts = {f[0]: f[1] for f in d["out"]["facts"]}
            native = "Underdetermined" if "C12.underdetermined_gives_err" in facts else "Ok"
            if native != lab or not all(facts.values()):
                res.tool_errors.append(f"try_calculate[{profile}]: path predicted {lab} for {cfg}, native facts {facts} (translator mismatch)")
    # (c) exists a path for each expected outcome (vacuity: the interpretation reaches the interesting exits)
    flat = {f"{result_kind(r)[0]}:{err_label(result_kind(r)[1]) if result_kind(r)[0] == 'Err' else ''}" for (_q, r) in results}
    for needed in ("Ok:", "Err:Underdetermined"):
        if needed not in flat:
            res.tool_errors.append(f"try_calculate[{profile}]: no path with outcome {needed} (found {sorted(flat)})")
    res.queries += m.queries
    res.solver_s += m.solver_s
    res.transitions += sum(len(q.pc) for q, _ in results)


def record_m_violation(res, h, prop, role, detail, native, expect_fact):
    """native replay through the engine-R harness (f64, dev + release)"""
    import engine_r, evidence
    if any(v["role"] == role for v in res.violations):
        return
    if h is None:
        h = engine_r.Harness(tag="mreplay")
    sc, cfg = native
    confirmed = None
    for profile in ("dev", "release"):
        d = h.run("f64", sc, cfg, profile=profile, timeout=30)
        res.validated += 1
        if d.get("crash"):
            confirmed = (profile, "crash/hang")
            break
        bad = [f for f in d["out"]["facts"] if not f[1]]
        if bad:
            confirmed = (profile, str(bad[0])[:300])
            break
    if confirmed is None:
        res.unconfirmed.append({"role": role, "detail": detail, "native": [sc, cfg]})
        return
    os.makedirs(evidence.REPLAY_DIR, exist_ok=True)
    path = os.path.join(evidence.REPLAY_DIR, f"{prop}-M-{len(res.violations)}.json")
    rec = {"property": prop, "engine": "R", "scenario": sc, "cfg": cfg, "inputs": {}, "obligation": expect_fact if expect_fact != "no_panic" else "no_panic",
           "detail": detail, "found_by": "M", "native_failure": list(confirmed), "role": role}
    write_json(path, rec)
    rec["replay"] = path
    res.violations.append(rec)


# ---------------------------------------------------------------------------------------------
# fit: Ok <=> was_successful, payload = (into_sequential(pi1 minimize), pi2 minimize)   (C04, C09)
# ---------------------------------------------------------------------------------------------
SUCC = z3.Function("was_successful", mirse.Val, z3.BoolSort())


def s_minimize(m, callee, args, path, fn, dst, depth):
    prob = Obj("struct:LevMarProblem(after minimize)")
    for i in range(5):
        prob.fields[(None, i)] = Obj(f"minimized.field{i}")
    rep = Obj("struct:MinimizationReport")
    rep.fields[(None, 0)] = Obj("termination")
    t = Obj("tuple")
    t.fields[(None, 0)], t.fields[(None, 1)] = prob, rep
    path.log.append(("minimize", args[1], prob, rep))
    return [(path, t)]


def s_was_successful(m, callee, args, path, fn, dst, depth):
    return [(path, SUCC(args[0].id))]


FIT_SUMMARIES = [
    (r"^LevenbergMarquardt::<.*>::minimize::<", s_minimize),
    (r"^TerminationReason::was_successful$", s_was_successful),
    (r"^FitResult::<.*>::new$", em.s_interpret(r"^fn levmar::<impl.*>::new\(_1: LevMarProblem<Model, MRHS, false>, _2: MinimizationReport")),
    (r"^FitResult::<.*>::was_successful$", em.s_interpret(r"^fn levmar::<impl.*>::was_successful\(_1: &FitResult")),
    (r"^LevMarProblem::<.*>::into_sequential$", em.s_interpret(r"^fn levmar::<impl.*>::into_sequential\(")),
]


def same(a, b):
    if isinstance(a, Obj) and isinstance(b, Obj):
        return a.id.eq(b.id)
    return False


def fitresult_matches(fr, prob, rep):
    """FitResult {problem, minimization_report} carries exactly the five fields of `prob` and the report `rep`"""
    if not isinstance(fr, Obj):
        return False, "payload is not a FitResult"
    p2, r2 = fr.fields.get((None, 0)), fr.fields.get((None, 1))
    if not isinstance(p2, Obj) or not isinstance(r2, Obj):
        return False, "FitResult fields missing"
    if not same(r2, rep):
        return False, "the report is not the optimizer's report"
    if same(p2, prob):
        return True, ""
    for i in range(5):
        if not same(p2.fields.get((None, i)), prob.fields.get((None, i))):
            return False, f"field {i} of the returned problem is not field {i} of the optimizer's final problem"
    return True, ""


def check_fit(res, fns, profile, h=None):
    m = mirse.Machine(fns, em.COMMON + FIT_SUMMARIES)
    fn = m.find(r"^fn levmar::<impl.*>::fit\(")
    m.panics = []
    p = mirse.Path()
    args = [mirse.fresh_for_type(fn.types.get(a, ""), a) for a in fn.args]
    results = m.run_fn(fn, args, p)
    res.functions.append(f"LevMarSolver::fit (+ FitResult::new, was_successful, into_sequential) [{profile}]: {len(results)} paths, {len(m.panics)} reachable panics")
    res.paths += len(results)
    res.obligations += 1
    if m.panics:
        res.violations.append({"property": res.prop, "engine": "M", "role": f"fit:panic:{profile}", "detail": f"reachable panic in fit: {m.panics[0].panic}", "obligation": "no_panic", "replay": None})
    else:
        res.discharged += 1
    kinds = set()
    for (q, ret) in results:
        kind, payload = result_kind(ret)
        kinds.add(kind)
        mins = [e for e in q.log if e[0] == "minimize"]
        if len(mins) != 1:
            # (a different call structure is not a violation of the property: no verdict from this engine)
            res.tool_errors.append(f"fit[{profile}]: the optimizer is called {len(mins)} times on a path; the summary of this engine assumes one call")
            continue
        _, given, prob, rep = mins[0]
        res.oblige(f"fit[{profile}] hands the caller's problem to the optimizer", "unsat" if same(given, args[1]) else "sat")
        if not same(given, args[1]):
            add_structural_violation(res, f"fit:problem_arg:{profile}", "fit does not hand the caller's problem to the optimizer", native=("fitmap", {}))
        succ = SUCC(rep.fields[(None, 0)].id)
        if kind == "Ok":
            v, _ = check_unsat(m, q.pc, [z3.Not(succ)], "")
            res.oblige(f"fit[{profile}] Ok implies was_successful(report)", v)
            if v == "sat":
                add_structural_violation(res, f"fit:ok_on_failure:{profile}", "fit returns Ok although the termination reason is not successful", native=("fitmap", {}))
        elif kind == "Err":
            v, _ = check_unsat(m, q.pc, [succ], "")
            res.oblige(f"fit[{profile}] Err implies not was_successful(report)", v)
            if v == "sat":
                add_structural_violation(res, f"fit:err_on_success:{profile}", "fit returns Err although the termination reason is successful", native=("fitmap", {}))
        else:
            res.tool_errors.append(f"fit[{profile}]: unclassified return {ret}")
            continue
        ok, why = fitresult_matches(payload, prob, rep)
        res.oblige(f"fit[{profile}] {kind}: result carries into_sequential(final problem) and the report", "unsat" if ok else "sat", why)
        if not ok:
            add_structural_violation(res, f"fit:payload:{profile}", f"fit {kind} payload: {why}", native=("fitmap", {}))
    if kinds != {"Ok", "Err"}:
        res.tool_errors.append(f"fit[{profile}]: expected both Ok and Err paths, found {kinds}")
    res.queries += m.queries
    res.solver_s += m.solver_s
    res.transitions += sum(len(q.pc) for q, _ in results)


def add_structural_violation(res, role, detail, native=None):
    """violations of data-flow post-conditions; replayed natively where a driver scenario exists"""
    import evidence
    if any(v["role"] == role for v in res.violations):
        return
    confirmed = None
    if native is None:
        # a data-flow deviation that has no native replay is reported as "no verdict", never as a violation
        res.tool_errors.append(f"{role}: {detail} (structural deviation without native replay: no verdict)")
        return
    if native is not None:
        import engine_r
        h = engine_r.Harness(tag="mreplay")
        sc, cfg = native
        for profile in ("dev", "release"):
            d = h.run("f64", sc, cfg, profile=profile, timeout=60)
            res.validated += 1
            bad = [("crash", d.get("log", "")[-200:])] if d.get("crash") else [f for f in d["out"]["facts"] if not f[1]]
            if bad:
                confirmed = (profile, str(bad[0])[:300])
                break
        if confirmed is None:
            res.unconfirmed.append({"role": role, "detail": detail, "native": [sc, cfg]})
            return
    os.makedirs(evidence.REPLAY_DIR, exist_ok=True)
    path = os.path.join(evidence.REPLAY_DIR, f"{res.prop}-M-{len(res.violations)}.json")
    rec = {"property": res.prop, "engine": "R" if native else "M", "scenario": native[0] if native else None, "cfg": native[1] if native else None, "inputs": {},
           "obligation": "", "detail": detail, "found_by": "M", "native_failure": list(confirmed) if confirmed else None, "role": role}
    write_json(path, rec)
    rec["replay"] = path
    res.violations.append(rec)


# ---------------------------------------------------------------------------------------------
# fit_with_statistics: every failure becomes Err(FitResult) with the same problem and report (C09, C12)
# ---------------------------------------------------------------------------------------------
def check_fit_with_statistics(res, fns, profile, h=None):
    summaries = em.COMMON + FIT_SUMMARIES + [
        (r"^LevMarSolver::<.*>::fit::<", em.s_interpret(r"^fn levmar::<impl.*>::fit\(")),
        (r"^LevMarProblem::<.*>::linear_coefficients$", em.s_fork_option("linear_coefficients")),
        (r"^LevMarProblem::<.*>::(model|weighted_data|weights)$", em.s_pure("accessor")),
        (r"^FitStatistics::<.*>::try_calculate$", em.s_fork_result("try_calculate")),
    ]
    m = mirse.Machine(fns, summaries)
    fn = m.find(r"^fn levmar::<impl.*>::fit_with_statistics\(")
    m.panics = []
    p = mirse.Path()
    args = [mirse.fresh_for_type(fn.types.get(a, ""), a) for a in fn.args]
    results = m.run_fn(fn, args, p)
    res.functions.append(f"LevMarSolver::fit_with_statistics (+ fit, FitResult::new) [{profile}]: {len(results)} paths, {len(m.panics)} reachable panics")
    res.paths += len(results)
    res.obligations += 1
    if m.panics:
        # a panic path of the MIR under this engine's environment model (the model may fail at any call, coefficients may be
        # absent): reported only if a native run with a model failure at some call index reproduces a panic
        for far in (1, 2, 0, 3):
            add_structural_violation(res, f"fws:panic:{profile}", f"reachable panic in fit_with_statistics: {m.panics[0].panic}", native=("faultsweep", dict(n=8, p=2, far=far)))
            if any(v.get("role") == f"fws:panic:{profile}" for v in res.violations):
                res.unconfirmed = [u for u in res.unconfirmed if u.get("role") != f"fws:panic:{profile}"]
                break
    else:
        res.discharged += 1
    n_ok = 0
    for (q, ret) in results:
        kind, payload = result_kind(ret)
        mins = [e for e in q.log if e[0] == "minimize"]
        if len(mins) != 1:
            res.tool_errors.append(f"fit_with_statistics[{profile}]: the optimizer is called {len(mins)} times on a path; the summary of this engine assumes one call")
            continue
        _, given, prob, rep = mins[0]
        succ = SUCC(rep.fields[(None, 0)].id)
        coeff = [e for e in q.log if e[0] == "env" and e[1] == "linear_coefficients"]
        tc = [e for e in q.log if e[0] == "env" and e[1] == "try_calculate"]
        if kind == "Ok":
            n_ok += 1
            v, _ = check_unsat(m, q.pc, [z3.Not(succ)], "")
            res.oblige(f"fit_with_statistics[{profile}] Ok implies successful termination", v)
            good = bool(coeff and coeff[-1][2] and tc and tc[-1][2])
            res.oblige(f"fit_with_statistics[{profile}] Ok implies coefficients present and statistics computed", "unsat" if good else "sat")
            if v == "sat" or not good:
                add_structural_violation(res, f"fws:ok_without_statistics:{profile}", "fit_with_statistics returns Ok although the fit failed / coefficients are absent / the statistics failed", native=("fwsmap", {}))
            fr = payload.fields.get((None, 0)) if isinstance(payload, Obj) else None
            ok, why = fitresult_matches(fr, prob, rep)
            res.oblige(f"fit_with_statistics[{profile}] Ok carries the final problem and report", "unsat" if ok else "sat", why)
            if not ok:
                add_structural_violation(res, f"fws:ok_payload:{profile}", why, native=("fwsmap", {}))
        elif kind == "Err":
            # an Err is justified by: unsuccessful termination, absent coefficients, or failed statistics
            justified = (coeff and not coeff[-1][2]) or (tc and not tc[-1][2])
            if not justified:
                v, _ = check_unsat(m, q.pc, [succ], "")
                res.oblige(f"fit_with_statistics[{profile}] Err only for a failed fit / absent coefficients / failed statistics", v)
                if v == "sat":
                    add_structural_violation(res, f"fws:unjustified_err:{profile}", "fit_with_statistics returns Err although everything succeeded", native=("fwsmap", {}))
            else:
                res.oblige(f"fit_with_statistics[{profile}] failure of statistics/coefficients gives Err", "unsat")
            ok, why = fitresult_matches(payload, prob, rep)
            res.oblige(f"fit_with_statistics[{profile}] Err carries the final problem and report", "unsat" if ok else "sat", why)
            if not ok:
                add_structural_violation(res, f"fws:err_payload:{profile}", why, native=("fwsmap", {}))
        else:
            res.tool_errors.append(f"fit_with_statistics[{profile}]: unclassified return {ret}")
    if n_ok < 1 or len(results) < 4:
        res.tool_errors.append(f"fit_with_statistics[{profile}]: expected >= 4 paths incl. an Ok path, found {len(results)} / {n_ok}")
    res.queries += m.queries
    res.solver_s += m.solver_s
    res.transitions += sum(len(q.pc) for q, _ in results)


# ---------------------------------------------------------------------------------------------
# LevMarProblemBuilder::build: decision table over symbolic sizes (C18)
# ---------------------------------------------------------------------------------------------
def s_set_params_problem(m, callee, args, path, fn, dst, depth):
    path.log.append(("problem.set_params", args[0], args[1], dict(args[0].fields) if isinstance(args[0], Obj) else {}))
    return [(path, Obj("unit"))]


def check_build(res, fns, profile, h=None):
    summaries = em.COMMON + [
        (r"^Weights::<.*>::is_size_correct_for_data_length$", em.s_interpret(r"^fn weights::<impl.*>::is_size_correct_for_data_length\(")),
        (r"^DiagMatrix::<.*>::size$", em.s_uf_usize("diag_len")),
        (r"^<&Weights<.*> as Mul<.*>>::mul$", em.s_pure("weights*matrix")),
        (r"^<LevMarProblem<.*> as LeastSquaresProblem<.*>>::set_params$", s_set_params_problem),
    ]
    m = mirse.Machine(fns, summaries)
    fn = m.find(r"^fn levmar::builder::<impl.*>::build\(")
    builder = Obj("builder")
    yopt, model, eopt, weights = Obj("Y-option"), Obj("model"), Obj("epsilon-option"), Obj("weights")
    ymat = Obj("Y")
    yopt.fields[("Some", 0)] = ymat
    builder.fields[(None, 0)], builder.fields[(None, 1)], builder.fields[(None, 2)], builder.fields[(None, 3)] = yopt, model, eopt, weights
    rows, cols = (em.uf(n, mirse.Val, z3.BitVecSort(64))(ymat.id) for n in ("nrows", "ncols"))
    X = em.count_of("output_len", model)
    small = z3.BitVecVal(1 << 31, 64)
    m.global_assumptions = [z3.ULT(rows, small), z3.ULT(cols, small), z3.ULT(X, z3.BitVecVal(1 << 48, 64)),
                            z3.Or(disc_fn(yopt.id) == 0, disc_fn(yopt.id) == 1), z3.Or(disc_fn(weights.id) == 0, disc_fn(weights.id) == 1),
                            z3.Or(disc_fn(eopt.id) == 0, disc_fn(eopt.id) == 1)]
    m.panics = []
    p = mirse.Path()
    p.frames[0]["__args"] = [builder]
    results = m.run_fn(fn, [builder], p)
    res.functions.append(f"LevMarProblemBuilder::build (+ Weights::is_size_correct_for_data_length) [{profile}]: {len(results)} paths, {len(m.panics)} reachable panics")
    res.paths += len(results)
    res.obligations += 1
    if m.panics:
        res.violations.append({"property": res.prop, "engine": "M", "role": f"build:panic:{profile}", "detail": f"reachable panic: {m.panics[0].panic}", "obligation": "no_panic", "replay": None})
    else:
        res.discharged += 1
    have_y = disc_fn(yopt.id) == 1
    # weights length as seen by the size check (the object identity may have been copied: use the UF on the original id)
    wdiag = disc_fn(weights.id) == 1
    seen = set()
    for (q, ret) in results:
        kind, payload = result_kind(ret)
        # the path's own copies of the input objects
        b2 = q.frames[0]["__args"][0]
        w2 = b2.fields[(None, 3)]
        wl = None
        # expected outcome as a formula over the inputs
        zero = z3.Or(X == 0, rows * cols == 0)
        wfield = w2.fields.get(("Diagonal", 0))
        wlen = em.uf("diag_len", mirse.Val, z3.BitVecSort(64))(wfield.id) if isinstance(wfield, Obj) else None
        wbad = z3.And(wdiag, wlen != rows) if wlen is not None else z3.BoolVal(False)
        # an error must name a requirement that IS violated (which one, if several are, is left to the implementation);
        # Ok exactly when none is violated
        expect = {
            "YDataMissing": z3.Not(have_y),
            "ZeroLengthVector": z3.And(have_y, zero),
            "InvalidLengthOfData": z3.And(have_y, X != rows),
            "InvalidLengthOfWeights": z3.And(have_y, wbad),
            "Ok": z3.And(have_y, z3.Not(zero), X == rows, z3.Not(wbad)),
        }
        outcome = "Ok" if kind == "Ok" else err_label(payload)
        seen.add(outcome)
        if outcome not in expect:
            res.tool_errors.append(f"build[{profile}]: unexpected outcome {outcome}")
            continue
        v, mdl = check_unsat(m, q.pc, [z3.Not(expect[outcome])], "", small=(X, rows, cols) + ((wlen,) if wlen is not None else ()))
        res.oblige(f"build[{profile}] -> {outcome} exactly under the stated condition", v)
        if v == "sat":
            vals = dict(have_y=bool(z3.is_true(mdl.eval(have_y, model_completion=True))), x=bvval(mdl, X), rows=bvval(mdl, rows), cols=bvval(mdl, cols),
                        wdiag=bool(z3.is_true(mdl.eval(wdiag, model_completion=True))), wlen=bvval(mdl, wlen) if wlen is not None else 0)
            cfg = dict(have_y=int(vals["have_y"]), x=min(vals["x"], 5), rows=min(vals["rows"], 5), cols=min(vals["cols"], 4), wdiag=int(vals["wdiag"]), wlen=min(vals["wlen"], 5))
            add_structural_violation(res, f"build:table:{outcome}:{profile}", f"build() returns {outcome} for inputs {vals}", native=("buildcase", cfg))
        if outcome == "InvalidLengthOfData" and isinstance(ret.fields.get(("Err", 0)), Obj):
            e = ret.fields[("Err", 0)]
            xl, yl = e.fields.get((None, 0)), e.fields.get((None, 1))
            good = xl is not None and yl is not None and z3.is_bv(xl) and z3.is_bv(yl)
            if good:
                v1, _ = check_unsat(m, q.pc, [z3.Or(xl != X, yl != rows)], "")
                res.oblige(f"build[{profile}] InvalidLengthOfData reports (x_length, y_length) = (model output length, data rows)", v1)
                if v1 == "sat":
                    add_structural_violation(res, f"build:lengths:{profile}", "InvalidLengthOfData carries the wrong lengths", native=("buildcase", dict(have_y=1, x=3, rows=2, cols=1, wdiag=0, wlen=0)))
        if outcome == "Ok":
            prob = payload
            sp = [e for e in q.log if e[0] == "problem.set_params"]
            # (how many updates build() performs is an implementation detail; the LAST one decides the state handed back)
            okc = len(sp) >= 1 and isinstance(prob, Obj) and same(sp[-1][1], prob)
            res.oblige(f"build[{profile}] Ok: the returned problem has been updated at least once", "unsat" if okc else "sat")
            if not okc:
                add_structural_violation(res, f"build:update:{profile}", f"build() performs {len(sp)} parameter updates on the returned problem", native=("buildcase", dict(have_y=1, x=3, rows=3, cols=1, wdiag=0, wlen=0)))
                continue
            pr = sp[-1][2]
            okp = isinstance(pr, Obj) and pr.meta.get("fn") == "model.params" and same(pr.meta["args"][0], b2.fields[(None, 1)])
            res.oblige(f"build[{profile}] Ok: the update applies model.params() of the supplied model", "unsat" if okp else "sat")
            f = sp[-1][3]
            yw, mod, eps, wts, cached = (f.get((None, i)) for i in range(5))
            oky = isinstance(yw, Obj) and yw.meta.get("fn") == "weights*matrix" and same(yw.meta["args"][0], w2) and same(yw.meta["args"][1], b2.fields[(None, 0)].fields[("Some", 0)])
            res.oblige(f"build[{profile}] Ok: Y_w = weights * Y (weights applied exactly once)", "unsat" if oky else "sat")
            okm = same(mod, b2.fields[(None, 1)]) and same(wts, w2) and isinstance(cached, Obj) and cached.variant == "None"
            res.oblige(f"build[{profile}] Ok: model and weights are the supplied ones, cache empty before the update", "unsat" if okm else "sat")
            e2 = b2.fields[(None, 2)]
            oke = (isinstance(eps, Obj) and (eps.tag.startswith("default:") or same(eps, e2.fields.get(("Some", 0)))))
            res.oblige(f"build[{profile}] Ok: threshold is the stored epsilon or the default", "unsat" if oke else "sat")
            if not (okp and oky and okm and oke):
                add_structural_violation(res, f"build:fields:{profile}", f"build() assembles the problem from the wrong parts (params={okp}, Y_w={oky}, model/weights/cache={okm}, eps={oke})",
                                         native=("buildcase", dict(have_y=1, x=3, rows=3, cols=2, wdiag=1, wlen=3)))
    # translator validation: every enumerated path is turned into a concrete scenario and run natively;
    # the observed outcome must be the one predicted for that path
    if h is not None:
        four = z3.BitVecVal(4, 64)
        for (q, ret) in results:
            kind, payload = result_kind(ret)
            outcome = "Ok" if kind == "Ok" else err_label(payload)
            b2 = q.frames[0]["__args"][0]
            wfield = b2.fields[(None, 3)].fields.get(("Diagonal", 0))
            wlen = em.uf("diag_len", mirse.Val, z3.BitVecSort(64))(wfield.id) if isinstance(wfield, Obj) else None
            s = z3.Solver()
            s.add(m.global_assumptions)
            s.add(q.pc)
            s.add(z3.ULE(rows, four), z3.ULE(cols, four), z3.ULE(X, four))
            if wlen is not None:
                s.add(z3.ULE(wlen, four))
            if s.check() != z3.sat:
                continue
            mdl = s.model()
            cfg = dict(have_y=int(z3.is_true(mdl.eval(have_y, model_completion=True))), x=bvval(mdl, X), rows=bvval(mdl, rows), cols=bvval(mdl, cols),
                       wdiag=int(z3.is_true(mdl.eval(wdiag, model_completion=True))), wlen=bvval(mdl, wlen) if wlen is not None else 0)
            d = h.run("f64", "buildcase", cfg, timeout=30)
            res.validated += 1
            got = None if d.get("crash") else next((n.split("=")[1] for n in d["out"]["notes"] if n.startswith("outcome=")), None)
            if got != outcome:
                res.tool_errors.append(f"build[{profile}]: path predicted {outcome} for {cfg} but the native run gave {got} (translator mismatch)")
    missing = {"YDataMissing", "ZeroLengthVector", "InvalidLengthOfData", "InvalidLengthOfWeights", "Ok"} - seen
    if missing:
        res.tool_errors.append(f"build[{profile}]: outcomes never produced on any path: {sorted(missing)}")
    res.queries += m.queries
    res.solver_s += m.solver_s
    res.transitions += sum(len(q.pc) for q, _ in results)


# ---------------------------------------------------------------------------------------------
# sequential vs parallel implementation: same MIR modulo the column iterator (C11, supplementary)
# ---------------------------------------------------------------------------------------------
def normalise_body(fn):
    lines = []
    for bb in sorted(fn.blocks, key=lambda b: int(b[2:])):
        for st in fn.blocks[bb]:
            st = re.sub(r"src/solvers/levmar/mod\.rs:\d+:\d+: \d+:\d+", "LOC", st)
            st = re.sub(r"LevMarProblem<Model, MRHS, (true|false)>", "LevMarProblem<Model, MRHS, PAR>", st)
            st = re.sub(r"LevMarProblem::<Model, MRHS, (true|false)>", "LevMarProblem::<Model, MRHS, PAR>", st)
            lines.append(f"{bb}: {st}")
    return lines


def check_par_drift(res, fns_unused, profile, h=None):
    mirs = em.dump_mir(features="parallel")
    fns = mirse.load(mirs["on"])
    names = ["set_params", "params", "residuals"] + [f"set_params::{{closure#{i}}}" for i in range(5)] + ["set_params::{closure#1}::{closure#0}", "residuals::{closure#0}", "jacobian::{closure#0}"]
    compared = 0
    for nm in names:
        pat = r"^fn levmar::<impl at src/solvers/levmar/mod\.rs:\d+:\d+: \d+:\d+>::" + re.escape(nm) + r"\("
        seq = [f for hd, f in fns.items() if re.search(pat, hd) and "MRHS, false>" in hd.split(") ->")[0].split("_1:")[1].split(",  _2")[0] if "_1:" in hd]
        allf = [(hd, f) for hd, f in fns.items() if re.search(pat, hd)]
        # the two impls differ in the const generic of the receiver type; closures mention it in their environment type
        groups = {}
        for hd, f in allf:
            key = re.search(r"impl at src/solvers/levmar/mod\.rs:(\d+)", hd).group(1)
            groups.setdefault(key, []).append(f)
        impls = sorted(groups.items(), key=lambda kv: int(kv[0]))
        impls = [(k, v) for k, v in impls if len(v) == 1]
        if len(impls) != 2:
            if nm in ("set_params", "params", "residuals", "jacobian::{closure#0}"):
                res.tool_errors.append(f"parallel drift: expected two MIR bodies for {nm}, found {len(impls)}")
            continue
        a, b = normalise_body(impls[0][1][0]), normalise_body(impls[1][1][0])
        compared += 1
        res.obligations += 1
        if a == b:
            res.discharged += 1
            if len(res.samples) < 8:
                res.samples.append({"obligation": f"MIR of the sequential and the parallel `{nm}` are identical modulo the PARALLEL const generic", "verdict": "identical", "statements": len(a)})
        else:
            diff = next((f"{x} | {y}" for x, y in zip(a, b) if x != y), f"length {len(a)} vs {len(b)}")
            # different code is not yet different behaviour: the equality of the two flavours is decided by Engine R;
            # a syntactic difference is only listed (the argument "identical closure => schedule independence" no longer applies)
            res.undischarged.append((f"pardrift:{nm}", "differs", f"the sequential and the parallel implementation of `{nm}` differ syntactically: {diff[:200]}"))
    res.functions.append(f"<LevMarProblem<_,_,false/true> as LeastSquaresProblem>::{{set_params, params, residuals}} and the closures of set_params/residuals/jacobian: {compared} pairs of MIR bodies compared (--features parallel)")


M_PROPS = {
    "C04": ["fit"],
    "C11": ["par_drift"],
    "C08": ["try_calculate", "fit", "fit_with_statistics", "build"],
    "C09": ["fit", "fit_with_statistics"],
    "C12": ["try_calculate", "fit_with_statistics"],
    "C18": ["build"],
}

M_ASSUMPTIONS = [
    "rustc nightly MIR (-Zunpretty=mir) of /repo's working tree, dumped on every run with overflow checks on and off",
    "model counts (output_len, parameter_count, base_function_count) < 2^48 (they size real allocations); matrix dimensions < 2^31",
    "numeric calls are uninterpreted; the model trait's fallible methods return Ok or Err nondeterministically (fault Booleans per call)",
    "`?` is interpreted exactly (Try::branch / FromResidual); Option/Result combinators used by the functions are summarised exactly",
    "loops (`for`) are outside this engine: a function containing a back-edge gives `no verdict`",
]


def run(prop, tier, seed):
    res = MResult(prop)
    mirs = em.dump_mir()
    import engine_r
    h = engine_r.Harness(tag=f"m-{prop}")
    h.build("dev")
    try:
        for profile in ("on", "off"):
            fns = mirse.load(mirs[profile])
            for item in M_PROPS[prop]:
                if item == "par_drift" and profile == "off":
                    continue
                CHECKS[item](res, fns, f"overflow-checks={profile}", h)
    except Unsupported as e:
        raise ToolFailure(f"MIR interpreter: {e}")
    return {
        "engine": "M (symbolic execution of the nightly MIR with z3: 64-bit bit-vectors, EUF, fault Booleans)",
        "functions": res.functions, "obligations": res.obligations, "discharged": res.discharged, "undischarged": res.undischarged,
        "violations": res.violations, "unconfirmed": res.unconfirmed, "queries": res.queries, "solver_s": round(res.solver_s, 2),
        "paths": res.paths, "states": res.paths, "transitions": res.transitions, "traces_validated": res.validated,
        "samples": res.samples, "nontrivial": res.discharged, "tool_errors": res.tool_errors, "assumptions": M_ASSUMPTIONS,
    }


CHECKS = {"try_calculate": check_try_calculate, "fit": check_fit, "fit_with_statistics": check_fit_with_statistics, "build": check_build, "par_drift": check_par_drift}
