"""Run the Engine-R part of a property check."""
import os
from common import *
import engine_r, props_r, evidence

R_FUNCTIONS = [
    "varpro::solvers::levmar::LevMarProblemBuilder::{new,mrhs,new_parallel,mrhs_parallel,observations,weights,epsilon,build}",
    "<LevMarProblem<_,_,false> as LeastSquaresProblem>::{set_params,params,residuals,jacobian}",
    "<LevMarProblem<_,_,true> as LeastSquaresProblem>::{set_params,params,residuals,jacobian}",
    "LevMarProblem::{linear_coefficients,weighted_data,into_sequential}", "FitResult::{best_fit,linear_coefficients,nonlinear_parameters}",
    "varpro::util::{to_vector, <&Weights as Mul>::mul, <&DiagMatrix as Mul>::mul}", "copy_matrix_to_column",
    "nalgebra (generic kernels, executed): gemm/gemv, SVD::{new (sort), solve}, transpose, try_inverse",
]
R_ASSUMPTIONS = [
    "real arithmetic (IEEE rounding, overflow, NaN/inf are outside this engine)",
    "nalgebra's SVD is replaced by a planted exact factorisation U*diag(sigma)*V^T for M >= 2 (contract stub; the matrix handed to svd is proved equal to the planted product); for M = 1 the real SVD runs symbolically",
    "planted frames U, V are exact rational orthogonal matrices (products of Householder reflections chosen by VERIF_SEED) and, for N <= 3, M <= 2, rationally parametrised rotations with SYMBOLIC parameters (all rotations); sigma, weights, observations, derivative matrices, epsilon are universally quantified",
    "weights non-zero in the planted tier (the basis matrix is defined as W^-1 * planted product); zero weights are covered in the real-svd tier",
    "divisors are proved non-zero on every explored path before they are assumed non-zero",
    "shapes bounded as listed in `configs`; larger shapes are outside the claim",
    "generic code is parametric in the scalar type: f32/f64 instantiate the same source",
]


def part_from_result(res, configs, tier, build_s, extra_assumptions=()):
    return {
        "engine": "R (symbolic execution of the real generic code on a symbolic real scalar + z3/cvc5)",
        "functions": R_FUNCTIONS,
        "bounds": {"configs": [f"{sc}:" + ",".join(f"{k}={v}" for k, v in sorted(c.items())) for sc, c in configs], "max_paths_per_config": engine_r.Budget(tier).max_paths},
        "obligations": res.obligations, "discharged": res.discharged, "identical_terms": res.identical,
        "undischarged": res.undischarged, "violations": res.violations, "unconfirmed": res.unconfirmed,
        "queries": res.stats["queries"], "solver_s": round(res.stats["solver_s"], 2), "by_solver": res.stats["by_solver"],
        "paths": res.paths, "states": res.paths, "transitions": res.transitions if hasattr(res, "transitions") else res.paths,
        "frontier_unknown": res.frontier_unknown, "facts_checked": res.facts_checked,
        "traces_validated": res.replays + res.translator_checks, "translator_mismatches": res.translator_mismatches,
        "nontrivial": len(res.nontrivial), "samples": res.samples, "tool_errors": res.tool_errors + [f"translator mismatch: {m}" for m in res.translator_mismatches],
        "vacuity_twins": res.vacuity, "harness_build_s": round(build_s, 1), "skipped_private_accessors": getattr(res, "skipped_accessors", []),
        "assumptions": R_ASSUMPTIONS + list(extra_assumptions),
    }


def run(prop, tier, seed):
    spec = props_r.R_PROPS[prop]
    budget = engine_r.Budget(tier)
    h = engine_r.Harness(tag=f"r-{prop}")
    h.build("dev")
    res = engine_r.Result(prop)
    res.check_divisors = spec.get("check_divisors", True)
    configs = props_r.configs_for(prop, tier, seed)
    for idx, (scenario, cfg) in enumerate(configs):
        budget.start_config(len(configs) - idx)
        engine_r.explore(h, res, scenario, cfg, spec["prefixes"], budget, evidence.REPLAY_DIR)
    budget.cfg_end = None
    # translator validation: the first configs are also executed natively on f64 at the shadow inputs and
    # every obligation must hold numerically (the Sym run and the f64 run execute the same source)
    nval = len(configs) if all(sc in ("stats", "relw_stats") for sc, _ in configs) else (3 if tier == "quick" else 8)
    vconfigs = list(configs[:nval])
    # the statistics are additionally validated natively at extreme scales of the weights (absolute thresholds show up there)
    vconfigs += [(sc, dict(c, wscale10=k)) for (sc, c) in configs[:nval] if sc == "stats" and "fail" not in c and int(c.get("n", 0)) > int(c.get("m", 0)) + int(c.get("p", 0)) for k in (-9, 6)]
    for (scenario, cfg) in vconfigs:
        d64 = h.run("f64", scenario, cfg)
        bad = engine_r.numeric_failures(d64, spec["prefixes"])
        res.translator_checks += 1
        native = [b for b in bad if ".native." in str(b[0])]
        for b in native[:1]:
            # checks that only exist natively (public API on f64, e.g. the confidence band): a failure is a violation
            engine_r.record_violation(h, res, scenario, cfg, d64, b[0], str(b[1]), spec["prefixes"], evidence.REPLAY_DIR, inputs={})
        bad = [b for b in bad if ".native." not in str(b[0])]
        if bad and not res.violations:
            res.translator_mismatches.append(f"{scenario} {cfg}: {bad[:2]}")
    # native single-precision runs (the properties quantify over f32 and f64): facts only -- numeric comparisons in f32
    # depend on conditioning and are not used as an oracle
    for (scenario, cfg) in configs[: (3 if tier == "quick" else 8)]:
        d32 = h.run("f32", scenario, cfg)
        res.translator_checks += 1
        if d32.get("crash"):
            res.tool_errors.append(f"f32 run of {scenario} {cfg} crashed: {d32.get('log', '')[-200:]}")
            continue
        for (name, holds, detail) in d32["out"]["facts"]:
            if not holds and (any(name.startswith(p) for p in spec["prefixes"]) or name == "no_panic"):
                engine_r.record_violation(h, res, scenario, dict(cfg, mode="f32"), d32, name, "[f32] " + str(detail), spec["prefixes"], evidence.REPLAY_DIR, inputs={}, native_confirm=False)
        # quantities that are exact in every floating-point width (the stored threshold: |eps| as given, or the machine epsilon
        # OF THE SCALAR TYPE) are compared exactly in f32 as well
        for ob in d32["out"]["obligations"]:
            if ob["name"] in engine_r.EXACT_NATIVE and any(ob["name"].startswith(p) for p in spec["prefixes"]):
                for (label, l, r) in ob["eqs"]:
                    if isinstance(l, (int, float)) and isinstance(r, (int, float)) and l != r:
                        engine_r.record_violation(h, res, scenario, dict(cfg, mode="f32"), d32, ob["name"], f"[f32] {label}: {l!r} but expected {r!r}", spec["prefixes"], evidence.REPLAY_DIR, inputs={}, native_confirm=False)
    if getattr(h, "accessors", None) is not None and set(h.accessors) != set(h.ACCESSORS):
        res.skipped_accessors = sorted(set(h.ACCESSORS) - set(h.accessors))
    engine_r.vacuity_twins(h, res, prop, budget)
    return part_from_result(res, configs, tier, h.build_s)
