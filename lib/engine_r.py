"""Engine R driver: builds the harness against an overlay of /repo's working tree, runs scenarios on
`Sym`, turns the arena into SMT-LIB, discharges obligations with the solver portfolio, explores paths
(generational search), replays counterexamples natively (f64)."""
import json, os, shutil, sys
from common import *

HARNESS_DIR = os.path.join(VERIF, "engine_r", "harness")
SYM_DIR = os.path.join(VERIF, "engine_r", "sym")
ACCESS_DIR = os.path.join(VERIF, "engine_r", "access")
TARGET_CACHE = os.path.join(SCRATCH, "target-r")


class Harness:
    """The harness binary built (dev and, on demand, release) against a fresh overlay of /repo."""

    def __init__(self, tag="r", features=("more",)):
        self.run_dir = new_run_dir(tag)
        self.features = features
        ensure_nalgebra()
        self.overlay = make_overlay(self.run_dir, ["levmar", "statistics"], "verif_sym", ACCESS_DIR)
        self.crate = os.path.join(self.run_dir, "rharness")
        os.makedirs(self.crate, exist_ok=True)
        tmpl = open(os.path.join(HARNESS_DIR, "Cargo.toml.in")).read()
        tmpl = (tmpl.replace("@OVERLAY@", self.overlay).replace("@SYM@", SYM_DIR)
                .replace("@NALGEBRA@", NALGEBRA_PATCHED).replace("@HARNESS_SRC@", os.path.join(HARNESS_DIR, "src")))
        tmpl += "\n[features]\nmore = []\n"
        open(os.path.join(self.crate, "Cargo.toml"), "w").write(tmpl)
        lock = os.path.join(VERIF, "engine_r", "harness", "Cargo.lock")
        if os.path.exists(lock):
            shutil.copy(lock, os.path.join(self.crate, "Cargo.lock"))
        os.makedirs(os.path.join(self.crate, ".cargo"), exist_ok=True)
        open(os.path.join(self.crate, ".cargo", "config.toml"), "w").write("[net]\noffline = true\n")
        self.bins = {}
        self.build_s = 0.0

    def build(self, profile="dev"):
        if profile in self.bins:
            return self.bins[profile]
        env = cargo_env({"RUSTFLAGS": "--cfg verif_sym -Awarnings", "CARGO_TARGET_DIR": TARGET_CACHE})
        cmd = ["cargo", "build", "--offline", "--bin", "rharness"]
        if self.features:
            cmd += ["--features", ",".join(self.features)]
        if profile == "release":
            cmd.append("--release")
        rc, out, dt = run(cmd, cwd=self.crate, env=env, timeout=1800)
        self.build_s += dt
        if rc != 0:
            log(out[-8000:])
            raise ToolFailure("the engine-R harness does not build against /repo's working tree (no verdict)")
        src = os.path.join(TARGET_CACHE, "debug" if profile == "dev" else "release", "rharness")
        dst = os.path.join(self.run_dir, f"rharness-{profile}")
        shutil.copy(src, dst)
        self.bins[profile] = dst
        return dst

    def run(self, mode, scenario, cfg, inputs=None, profile="dev", timeout=120):
        binp = self.build(profile)
        outp = os.path.join(self.run_dir, f"out-{os.getpid()}-{int(uptime()*1e6)}.json")
        args = [binp, mode, scenario, outp] + [f"{k}={v}" for k, v in cfg.items()]
        if inputs:
            ip = outp + ".in"
            with open(ip, "w") as f:
                for k, v in inputs.items():
                    f.write(f"{k} {v}\n")
            args.append(f"inputs={ip}")
        rc, out, dt = run(args, timeout=timeout)
        if rc != 0 or not os.path.exists(outp):
            return {"crash": True, "rc": rc, "log": out[-3000:]}
        with open(outp) as f:
            doc = json.load(f)
        os.remove(outp)
        return doc


# =============================================================================================
# analysis of one symbolic run
# =============================================================================================
import smt
from fractions import Fraction


def frac_str(fr):
    fr = Fraction(fr)
    return f"{fr.numerator}/{fr.denominator}"


class Budget:
    def __init__(self, tier):
        self.tier = tier
        self.inc_s = 5 if tier == "quick" else 20          # per query, incremental session
        self.full_s = 20 if tier == "quick" else 240       # per query and configuration, standalone portfolio
        self.max_paths = 12 if tier == "quick" else 48


class Result:
    """Accumulated over all runs of one property check."""

    def __init__(self, prop):
        self.prop = prop
        self.obligations = 0
        self.discharged = 0
        self.identical = 0
        self.undischarged = []     # (config, obligation label, note)
        self.violations = []       # dicts
        self.unconfirmed = []      # sat but not reproduced natively
        self.facts_checked = 0
        self.paths = 0
        self.runs = 0
        self.frontier_unknown = 0
        self.replays = 0
        self.translator_checks = 0
        self.translator_mismatches = []
        self.stats = {"queries": 0, "solver_s": 0.0, "by_solver": {}}
        self.samples = []
        self.nontrivial = set()
        self.configs = []
        self.vacuity = []          # (config, twin name, verdict)
        self.tool_errors = []


def model_via_api(base_lines, goal_lines, names, timeout_s):
    """Use the z3 python API to obtain a model (also handles algebraic numbers by approximation)."""
    import z3
    s = z3.Solver()
    s.set("timeout", int(timeout_s * 1000))
    try:
        s.from_string("\n".join(base_lines + goal_lines))
    except z3.Z3Exception as e:
        return None
    if s.check() != z3.sat:
        return None
    m = s.model()
    vals = {}
    decls = {d.name(): d for d in m.decls()}
    for n in names:
        d = decls.get(n)
        if d is None:
            continue
        v = m[d]
        try:
            if z3.is_rational_value(v):
                vals[n] = Fraction(v.numerator_as_long(), v.denominator_as_long())
            elif z3.is_algebraic_value(v):
                a = v.approx(30)
                vals[n] = Fraction(a.numerator_as_long(), a.denominator_as_long())
        except Exception:
            pass
    return vals


def var_names(arena, ids):
    return {arena.name(i): arena.nodes[i][1] for i in ids if arena.nodes[i][0] == "v"}


def select_obligations(doc, prefixes):
    obs = []
    for ob in doc["out"]["obligations"]:
        if any(ob["name"].startswith(p) for p in prefixes):
            obs.append(ob)
    facts = [f for f in doc["out"]["facts"] if any(f[0].startswith(p) for p in prefixes) or f[0] == "no_panic"]
    return obs, facts


def f64_eval(h, scenario, cfg, inputs, profile="dev"):
    d = h.run("f64", scenario, cfg, inputs=inputs, profile=profile)
    return d


def numeric_failures(doc64, prefixes, tol=1e-6):
    """obligations that fail numerically in a native f64 run: list of (name, label, lhs, rhs)"""
    bad = []
    if doc64.get("crash"):
        return [("crash", doc64.get("log", "")[-400:], 0, 0)]
    for ob in doc64["out"]["obligations"]:
        if not any(ob["name"].startswith(p) for p in prefixes):
            continue
        vals = [abs(x) for e in ob["eqs"] for x in e[1:3] if isinstance(x, (int, float))]
        scale = max([1.0] + vals)
        for (label, l, r) in ob["eqs"]:
            if not isinstance(l, (int, float)) or not isinstance(r, (int, float)):
                bad.append((ob["name"], label, l, r))
            elif abs(l - r) > tol * scale:
                bad.append((ob["name"], label, l, r))
    for (name, holds, detail) in doc64["out"]["facts"]:
        if (any(name.startswith(p) for p in prefixes) or name == "no_panic") and not holds:
            bad.append((name, detail, "fact", "false"))
    return bad


def analyze_run(h, res, scenario, cfg, doc, prefixes, budget, replay_dir, expect_sat=()):
    """Discharge every selected obligation of one symbolic run (= one path).  Returns the Arena and base
    lines (for path exploration)."""
    arena = smt.Arena(doc["nodes"])
    obs, facts = select_obligations(doc, prefixes)
    trace = doc["trace"]
    assumes = doc["out"]["assumes"]
    roots = set()
    for (a, op, b, _o) in trace:
        roots.update((a, b))
    for (a, op, b) in assumes:
        roots.update((a, b))
    for ob in obs:
        for (_l, a, b) in ob["eqs"]:
            roots.update((a, b))
    garbage = -1 in roots
    roots.discard(-1)
    ids = arena.cone(roots)
    uf = arena.has_uf(ids)
    defs = arena.definitions(ids)
    pc = [f"(assert {arena.rel(a, op, b, o)})" for (a, op, b, o) in trace]
    asm = [f"(assert {arena.rel(a, op, b)})" for (a, op, b) in assumes]
    base = defs + asm + pc
    cfg_label = scenario + ":" + ",".join(f"{k}={v}" for k, v in sorted(cfg.items()))
    res.runs += 1
    if doc.get("concretised", 0) > 0:
        res.tool_errors.append(f"{cfg_label}: a symbolic value was concretised {doc['concretised']} times (encoding incomplete)")
    # ---- facts (concrete on this path)
    for (name, holds, detail) in facts:
        res.facts_checked += 1
        if not holds:
            record_violation(h, res, scenario, cfg, doc, name, detail, prefixes, replay_dir, inputs=doc["vars"])
    if doc.get("garbage_reads", 0) > 0 or garbage:
        record_violation(h, res, scenario, cfg, doc, "C10.no_garbage", f"{doc.get('garbage_reads')} reads of uninitialised scalars", prefixes, replay_dir, inputs=doc["vars"], native_confirm=False)
    # ---- path feasibility (vacuity guard for everything below)
    v2, _ = smt.solve_text(base, [], budget.full_s, uf=uf, stats=res.stats)
    if v2.result == "unsat":
        res.tool_errors.append(f"{cfg_label}: path condition unsatisfiable (vacuous path)")
        return arena, base, ids
    if v2.result != "sat":
        res.undischarged.append((cfg_label, "path-feasibility", repr(v2)))
    # ---- divisors are non-zero on this path (definedness; "all values stay finite" over the reals)
    divs = [d for d in arena.divisors(ids) if arena.nodes[d][0] != "c"]
    goals = [[f"(assert (= {arena.name(dnode)} 0.0))"] for dnode in divs]
    verdicts = solve_many(base, goals, budget, uf, res.stats)
    div_asm = []
    for dnode, goal, v in zip(divs, goals, verdicts):
        res.obligations += 1
        if v.result == "unsat":
            res.discharged += 1
        elif v.result == "sat":
            vals = model_via_api(base, goal, list(var_names(arena, ids)), budget.full_s)
            record_violation(h, res, scenario, cfg, doc, "divisor_nonzero", f"divisor node {dnode} can be zero on this path", prefixes, replay_dir,
                             inputs=model_inputs(arena, ids, vals, doc), native_confirm="nonfinite")
        else:
            res.undischarged.append((cfg_label, f"divisor_nonzero#{dnode}", repr(v)))
        div_asm.append(f"(assert (not (= {arena.name(dnode)} 0.0)))")
    base = base + div_asm
    # ---- equalities
    todo = []
    for ob in obs:
        for (label, a, b) in ob["eqs"]:
            res.obligations += 1
            if a == -1 or b == -1:
                continue  # reported as garbage above
            if a == b:
                res.identical += 1
                res.discharged += 1
                continue
            todo.append((ob["name"], label, a, b, [f"(assert (not (= {arena.name(a)} {arena.name(b)})))"]))
    verdicts = solve_many(base, [t[4] for t in todo], budget, uf, res.stats)
    for (oname, label, a, b, goal), v in zip(todo, verdicts):
        full = f"{oname}/{label}"
        if v.result == "unsat":
            res.discharged += 1
            res.nontrivial.add((arena.struct_hash(a), arena.struct_hash(b)))
            if len(res.samples) < 6 and len(res.samples) < 1 + res.runs:
                res.samples.append({"config": cfg_label, "obligation": full, "verdict": repr(v),
                                    "query": (goal[0][:300]), "path_condition": pc[:6], "term_nodes": len(ids)})
        elif v.result == "sat":
            vals = model_via_api(base, goal, list(var_names(arena, ids)), budget.full_s)
            record_violation(h, res, scenario, cfg, doc, oname, f"{label}: solver found inputs with lhs != rhs", prefixes, replay_dir,
                             inputs=model_inputs(arena, ids, vals, doc), shadow_inputs=doc["vars"], label=label)
        else:
            res.undischarged.append((cfg_label, full, repr(v)))
    return arena, base, ids


def solve_many(base, goals, budget, uf, stats, workers=12):
    """discharge many small queries in parallel, one solver process each (an incremental z3 session is
    far slower on these nonlinear queries than a fresh process: measured 5 s vs 0.03 s)"""
    from concurrent.futures import ThreadPoolExecutor
    if not goals:
        return []
    local = [dict() for _ in goals]

    def one(i):
        v, _ = smt.solve_text(base, goals[i], budget.full_s, uf=uf, stats=local[i])
        return v
    with ThreadPoolExecutor(max_workers=workers) as ex:
        out = list(ex.map(one, range(len(goals))))
    for st in local:
        stats["queries"] += st.get("queries", 0)
        stats["solver_s"] += st.get("solver_s", 0.0)
        for k, (c, t) in st.get("by_solver", {}).items():
            stats["by_solver"].setdefault(k, [0, 0.0])
            stats["by_solver"][k][0] += c
            stats["by_solver"][k][1] += t
    return out


def model_inputs(arena, ids, vals, doc):
    """merge a solver model (smt names) into harness input names; variables the model leaves open keep their shadow"""
    inputs = dict(doc["vars"])
    if vals:
        names = var_names(arena, ids)
        for sname, v in vals.items():
            if sname in names:
                inputs[names[sname]] = frac_str(v)
    return inputs


_seen_violation_keys = set()


def record_violation(h, res, scenario, cfg, doc, name, detail, prefixes, replay_dir, inputs, shadow_inputs=None, label=None, native_confirm=True):
    """Replay natively (f64, dev + release); only a reproducing counterexample becomes a violation."""
    key = (scenario, tuple(sorted(cfg.items())), name)
    if key in _seen_violation_keys:
        return
    candidates = [inputs] + ([shadow_inputs] if shadow_inputs else [])
    confirmed = None
    if native_confirm is False:
        confirmed = (inputs, [(name, detail, "", "")], {})
    else:
        for cand in candidates:
            fails = {}
            for profile in ("dev", "release"):
                d64 = f64_eval(h, scenario, cfg, cand, profile)
                res.replays += 1
                bad = numeric_failures(d64, [name] if native_confirm is True else prefixes)
                if native_confirm == "nonfinite":
                    bad = [b for b in bad if not isinstance(b[2], (int, float)) or not isinstance(b[3], (int, float))] or \
                          ([("crash", "", 0, 0)] if d64.get("crash") else [])
                fails[profile] = bad
            if fails["dev"] or fails["release"]:
                confirmed = (cand, fails["dev"] or fails["release"], {k: bool(v) for k, v in fails.items()})
                break
    if confirmed is None:
        res.unconfirmed.append({"config": {"scenario": scenario, **cfg}, "obligation": name, "detail": detail})
        return
    _seen_violation_keys.add(key)
    cand, bad, profiles = confirmed
    os.makedirs(replay_dir, exist_ok=True)
    path = os.path.join(replay_dir, f"{res.prop}-{len(res.violations)}.json")
    rec = {"property": res.prop, "engine": "R", "scenario": scenario, "cfg": cfg, "inputs": cand, "obligation": name, "detail": detail,
           "native_failures": [list(map(str, b)) for b in bad[:8]], "profiles_failing": profiles,
           "role": f"{scenario}:{name}:" + ",".join(f"{k}={cfg[k]}" for k in sorted(cfg) if k in ("hist", "w", "mrhs", "par", "eps", "deriv_fail", "kind"))}
    write_json(path, rec)
    rec["replay"] = path
    res.violations.append(rec)


# =============================================================================================
# path exploration (generational search)
# =============================================================================================
def explore(h, res, scenario, cfg, prefixes, budget, replay_dir):
    """Run the scenario, discharge its obligations, then flip every recorded decision whose other side
    is feasible and repeat (bounded by budget.max_paths).  The uncovered remainder is counted."""
    work = [(None, 0)]     # (inputs, bound)
    seen_paths = set()
    paths = 0
    while work and paths < budget.max_paths:
        inputs, bound = work.pop(0)
        doc = h.run("sym", scenario, cfg, inputs=inputs)
        if doc.get("crash"):
            res.tool_errors.append(f"{scenario} {cfg}: harness crashed: {doc.get('log', '')[-300:]}")
            return
        arena0 = smt.Arena(doc["nodes"])
        sig = tuple((arena0.struct_hash(a), op, arena0.struct_hash(b), o) for (a, op, b, o) in doc["trace"])
        if sig in seen_paths:
            continue
        seen_paths.add(sig)
        paths += 1
        res.paths += 1
        arena, base, ids = analyze_run(h, res, scenario, cfg, doc, prefixes, budget, replay_dir)
        # children: flip decision i >= bound under the prefix
        trace = doc["trace"]
        assumes = doc["out"]["assumes"]
        roots = set()
        for (a, op, b, _o) in trace:
            roots.update((a, b))
        for (a, op, b) in assumes:
            roots.update((a, b))
        pids = arena.cone(roots)
        defs = arena.definitions(pids)
        asm = [f"(assert {arena.rel(a, op, b)})" for (a, op, b) in assumes]
        names = var_names(arena, pids)
        for i in range(bound, len(trace)):
            prefix = [f"(assert {arena.rel(a, op, b, o)})" for (a, op, b, o) in trace[:i]]
            a, op, b, o = trace[i]
            flip = [f"(assert {arena.rel(a, op, b, not o)})"]
            v, _ = smt.solve_text(defs + asm + prefix, flip, budget.inc_s, uf=arena.has_uf(pids), stats=res.stats, configs=smt.SOLVER_CONFIGS[:3])
            if v.result == "unsat":
                continue
            vals = None
            if v.result == "sat":
                try:
                    vals = model_via_api(defs + asm + prefix, flip, list(names), budget.full_s)
                except Exception as e:
                    vals = None
            if vals is None:
                res.frontier_unknown += 1
                continue
            new_inputs = dict(doc["vars"])
            for sname, val in vals.items():
                if sname in names:
                    new_inputs[names[sname]] = frac_str(val)
            work.append((new_inputs, i + 1))
    if work:
        res.frontier_unknown += len(work)
