"""Engine R driver: builds the harness against an overlay of /repo's working tree, runs scenarios on
`Sym`, turns the arena into SMT-LIB, discharges obligations with the solver portfolio, explores paths
(generational search), replays counterexamples natively (f64)."""
import json, os, shutil, sys
from common import *

HARNESS_DIR = os.path.join(VERIF, "engine_r", "harness")
SYM_DIR = os.path.join(VERIF, "engine_r", "sym")
ACCESS_DIR = os.path.join(VERIF, "engine_r", "access")
TARGET_CACHE = os.path.join(SCRATCH, "target-r")


class Harness:
    """The harness binary built (dev and, on demand, release) against a fresh overlay of /repo."""

    def __init__(self, tag="r", features=()):
        self.run_dir = new_run_dir(tag)
        self.features = features
        ensure_nalgebra()
        self.overlay = make_overlay(self.run_dir, ["levmar", "statistics"], "verif_sym", ACCESS_DIR)
        self.crate = os.path.join(self.run_dir, "rharness")
        os.makedirs(self.crate, exist_ok=True)
        tmpl = open(os.path.join(HARNESS_DIR, "Cargo.toml.in")).read()
        tmpl = (tmpl.replace("@OVERLAY@", self.overlay).replace("@SYM@", SYM_DIR)
                .replace("@NALGEBRA@", NALGEBRA_PATCHED).replace("@HARNESS_SRC@", os.path.join(HARNESS_DIR, "src")))
        open(os.path.join(self.crate, "Cargo.toml"), "w").write(tmpl)
        lock = os.path.join(VERIF, "engine_r", "harness", "Cargo.lock")
        if os.path.exists(lock):
            shutil.copy(lock, os.path.join(self.crate, "Cargo.lock"))
        os.makedirs(os.path.join(self.crate, ".cargo"), exist_ok=True)
        open(os.path.join(self.crate, ".cargo", "config.toml"), "w").write("[net]\noffline = true\n")
        self.bins = {}
        self.build_s = 0.0

    ACCESSORS = ["verif_acc_eps", "verif_acc_sigma", "verif_acc_dof", "verif_acc_counts", "verif_acc_trycalc"]

    def build(self, profile="dev"):
        if profile in self.bins:
            return self.bins[profile]
        cmd = ["cargo", "build", "--offline", "--bin", "rharness"]
        if self.features:
            cmd += ["--features", ",".join(self.features)]
        if profile == "release":
            cmd.append("--release")
        # optional accessors of private fields: if the overlay does not compile with one of them (a field was
        # renamed / removed) it is dropped and the obligations that need it are skipped
        if not hasattr(self, "accessors"):
            self.accessors = list(self.ACCESSORS)
        attempts = [list(self.accessors)] + [[a for a in self.accessors if a != drop] for drop in self.accessors] + [[]]
        rc, out = 1, ""
        for acc in attempts:
            flags = "--cfg verif_sym -Awarnings " + " ".join(f"--cfg {a}" for a in acc)
            env = cargo_env({"RUSTFLAGS": flags.strip(), "CARGO_TARGET_DIR": TARGET_CACHE})
            rc, out, dt = run(cmd, cwd=self.crate, env=env, timeout=1800)
            self.build_s += dt
            if rc == 0:
                if acc != self.accessors:
                    log(f"engine R: built without accessors {sorted(set(self.accessors) - set(acc))}")
                self.accessors = acc
                break
        if rc != 0:
            log(out[-8000:])
            raise ToolFailure("the engine-R harness does not build against /repo's working tree (no verdict)")
        src = os.path.join(TARGET_CACHE, "debug" if profile == "dev" else "release", "rharness")
        dst = os.path.join(self.run_dir, f"rharness-{profile}")
        shutil.copy(src, dst)
        self.bins[profile] = dst
        return dst

    def run(self, mode, scenario, cfg, inputs=None, profile="dev", timeout=120):
        binp = self.build(profile)
        outp = os.path.join(self.run_dir, f"out-{os.getpid()}-{int(uptime()*1e6)}.json")
        args = [binp, mode, scenario, outp] + [f"{k}={v}" for k, v in cfg.items()]
        if inputs:
            ip = outp + ".in"
            with open(ip, "w") as f:
                for k, v in inputs.items():
                    f.write(f"{k} {v}\n")
            args.append(f"inputs={ip}")
        rc, out, dt = run(args, timeout=timeout)
        if rc != 0 or not os.path.exists(outp):
            return {"crash": True, "rc": rc, "log": out[-3000:]}
        with open(outp) as f:
            doc = json.load(f)
        os.remove(outp)
        doc["cfg"] = dict(cfg)
        return doc


# =============================================================================================
# analysis of one symbolic run
# =============================================================================================
import smt
from fractions import Fraction


def frac_str(fr):
    fr = Fraction(fr)
    return f"{fr.numerator}/{fr.denominator}"


class Budget:
    def __init__(self, tier):
        self.tier = tier
        self.inc_s = 5 if tier == "quick" else 20          # per query, incremental session
        self.full_s = 20 if tier == "quick" else 240       # per query and configuration, standalone portfolio
        self.max_paths = 64 if tier == "quick" else 160
        # wall-clock budget of the solver work of one property run: a change that makes thousands of obligations hard must
        # not turn a quick check into hours of time-outs.  Queries after the deadline come back `unknown` (listed, never counted
        # as discharged); after `max_timeouts` queries have exhausted the full race the remaining ones only get its first stage.
        self.t_end = uptime() + (780 if tier == "quick" else 6 * 3600)
        self.max_timeouts = 80 if tier == "quick" else 2000
        self.timeouts = 0
        self.cfg_end = None

    def expired(self):
        return uptime() > self.t_end or (self.cfg_end is not None and uptime() > self.cfg_end)

    def start_config(self, remaining):
        """each configuration gets at most twice its even share of what is left (one expensive configuration must not
        starve the others)"""
        left = max(0.0, self.t_end - uptime())
        self.cfg_end = uptime() + max(45.0, 2.0 * left / max(1, remaining))

    def per_query_s(self):
        return self.full_s if self.timeouts < self.max_timeouts else 3


class Result:
    """Accumulated over all runs of one property check."""

    def __init__(self, prop):
        self.prop = prop
        self.obligations = 0
        self.discharged = 0
        self.identical = 0
        self.undischarged = []     # (config, obligation label, note)
        self.violations = []       # dicts
        self.unconfirmed = []      # sat but not reproduced natively
        self.facts_checked = 0
        self.paths = 0
        self.runs = 0
        self.frontier_unknown = 0
        self.replays = 0
        self.translator_checks = 0
        self.translator_mismatches = []
        self.stats = {"queries": 0, "solver_s": 0.0, "by_solver": {}}
        self.samples = []
        self.nontrivial = set()
        self.configs = []
        self.vacuity = []          # (config, twin name, verdict)
        self.tool_errors = []


def model_via_api(base_lines, goal_lines, names, timeout_s):
    """Use the z3 python API to obtain a model (also handles algebraic numbers by approximation)."""
    import z3
    s = z3.Solver()
    s.set("timeout", int(timeout_s * 1000))
    try:
        s.from_string("\n".join(base_lines + goal_lines))
    except z3.Z3Exception as e:
        return None
    if s.check() != z3.sat:
        return None
    m = s.model()
    vals = {}
    decls = {d.name(): d for d in m.decls()}
    for n in names:
        d = decls.get(n)
        if d is None:
            continue
        v = m[d]
        try:
            if z3.is_rational_value(v):
                vals[n] = Fraction(v.numerator_as_long(), v.denominator_as_long())
            elif z3.is_algebraic_value(v):
                a = v.approx(30)
                vals[n] = Fraction(a.numerator_as_long(), a.denominator_as_long())
        except Exception:
            pass
    return vals


def var_names(arena, ids):
    return {arena.name(i): arena.nodes[i][1] for i in ids if arena.nodes[i][0] == "v"}


def select_obligations(doc, prefixes):
    obs = []
    for ob in doc["out"]["obligations"]:
        if any(ob["name"].startswith(p) for p in prefixes):
            obs.append(ob)
    facts = [f for f in doc["out"]["facts"] if any(f[0].startswith(p) for p in prefixes) or f[0] == "no_panic"]
    return obs, facts


def f64_eval(h, scenario, cfg, inputs, profile="dev"):
    d = h.run("f64", scenario, cfg, inputs=inputs, profile=profile)
    return d


EXACT_NATIVE = {"C18.epsilon_abs"}


def numeric_failures(doc64, prefixes, tol=1e-6, elementwise=False):
    """obligations that fail numerically in a native f64 run: list of (name, label, lhs, rhs)"""
    bad = []
    if doc64.get("crash"):
        return [("crash", doc64.get("log", "")[-400:], 0, 0)]
    for ob in doc64["out"]["obligations"]:
        if not any(ob["name"].startswith(p) for p in prefixes):
            continue
        # premises of the obligation group, evaluated on the native values: a case whose premise is false does not apply
        def holds(g):
            a, op, b = g
            if not isinstance(a, (int, float)) or not isinstance(b, (int, float)):
                return False
            return {">": a > b, ">=": a >= b, "<": a < b, "<=": a <= b, "=": a == b, "!=": a != b}.get(op, False)
        if not all(holds(g) for g in ob.get("given", [])):
            continue
        vals = [abs(x) for e in ob["eqs"] for x in e[1:3] if isinstance(x, (int, float))]
        scale = max([1.0] + vals)
        if "wscale10" in str(doc64.get("cfg", "")) and ".native." not in ob["name"]:
            continue
        for (label, l, r) in ob["eqs"]:
            if not isinstance(l, (int, float)) or not isinstance(r, (int, float)):
                bad.append((ob["name"], label, l, r))
            elif ob["name"] in EXACT_NATIVE:
                # quantities that are exact in floating point as well (|eps| is stored, not computed)
                if l != r:
                    bad.append((ob["name"], label, l, r))
            elif abs(l - r) > tol * (max(abs(l), abs(r), 1e-300) if elementwise else scale):
                bad.append((ob["name"], label, l, r))
        for (label, l, op, r) in ob.get("ineqs", []):
            if isinstance(l, (int, float)) and isinstance(r, (int, float)) and op == "<=" and l > r + tol * max(1.0, abs(l), abs(r)):
                bad.append((ob["name"], label, l, r))
    for (name, holds, detail) in doc64["out"]["facts"]:
        if (any(name.startswith(p) for p in prefixes) or name == "no_panic") and not holds:
            bad.append((name, detail, "fact", "false"))
    return bad


class Encoded:
    """Both encodings (plain with division, fraction-free) of one symbolic run; builds per-goal queries that
    carry only the constraints (sqrt definitions, non-zero divisors) of the nodes in the goal's own cone."""

    def __init__(self, arena, doc, extra_roots=()):
        self.arena = arena
        self.trace = doc["trace"]
        self.assumes = doc["out"]["assumes"]
        roots = set(extra_roots)
        self.ctx_roots = set()
        for (a, op, b, _o) in self.trace:
            self.ctx_roots.update((a, b))
        for (a, op, b) in self.assumes:
            self.ctx_roots.update((a, b))
        roots |= self.ctx_roots
        roots.discard(-1)
        self.ids = arena.cone(roots)
        self.uf = arena.has_uf(self.ids)
        self.pcons = {}
        self.pdefs = arena.definitions(self.ids, self.pcons)
        self.pc = [f"(assert {arena.rel(a, op, b, o)})" for (a, op, b, o) in self.trace]
        self.asm = [f"(assert {arena.rel(a, op, b)})" for (a, op, b) in self.assumes]
        self.ctx_cone = arena.cone(self.ctx_roots)
        self.div_assumed = True
        self.ff = None
        if arena.divisors(self.ids) and not self.uf:
            try:
                self.ff = smt.FF(arena, self.ids)
                self.ff_pc = [f"(assert {self.ff.rel(a, op, b, o)})" for (a, op, b, o) in self.trace]
                self.ff_asm = [f"(assert {self.ff.rel(a, op, b)})" for (a, op, b) in self.assumes]
            except Exception:
                self.ff = None

    def _plain_cons(self, cone, assume_div):
        out = []
        for i in cone:
            out += self.pcons.get(i, [])
        if assume_div:
            out += [f"(assert (not (= {self.arena.name(d)} 0.0)))" for d in self.arena.divisors(cone) if self.arena.nodes[d][0] != "c"]
        return out

    def base_plain(self, goal_roots=(), assume_div=True, upto=None):
        cone = self.arena.cone(set(goal_roots) | self.ctx_roots) if goal_roots else self.ctx_cone
        pc = self.pc if upto is None else self.pc[:upto]
        return self.pdefs + self._plain_cons(cone, assume_div) + self.asm + pc

    def variants_eq(self, a, b, negate=True, given=()):
        """queries for `a != b` (negated obligation) in both encodings; `given` = assumptions local to the obligation"""
        goal = f"(assert (not (= {self.arena.name(a)} {self.arena.name(b)})))"
        groots = {a, b}
        for (x, _op, y) in given:
            groots.update((x, y))
        extra = [f"(assert {self.arena.rel(x, op, y)})" for (x, op, y) in given]
        v = [("plain", self.base_plain(tuple(groots)), extra + [goal])]
        if self.ff is not None:
            cone = self.arena.cone(groots | self.ctx_roots)
            base = self.ff.lines + self.ff.constraints_for(cone) + self.ff_asm + self.ff_pc
            v.append(("ff", base, [f"(assert {self.ff.rel(x, op, y)})" for (x, op, y) in given] + [f"(assert {self.ff.rel(a, '!=', b)})"]))
        return v



def _pc_holds_numerically(arena, doc):
    """the recorded decisions evaluated in floating point at the recorded inputs: (number violated beyond rounding, total)"""
    try:
        val = arena.float_values(doc["vars"], dps=60)
        rel = 1e-25
    except ImportError:
        val = arena.float_values(doc["vars"])
        rel = 1e-9
    bad = 0
    for (a, op, b, o) in doc["trace"]:
        x, y = val[a], val[b]
        if x is None or y is None:
            continue
        tol = rel * max(1.0, abs(x), abs(y))
        ok = {">": x > y - tol, ">=": x >= y - tol, "<": x < y + tol, "<=": x <= y + tol, "=": abs(x - y) <= tol, "!=": True}.get(op, True)
        ok_neg = {">": x <= y + tol, ">=": x < y + tol, "<": x >= y - tol, "<=": x > y - tol, "=": True, "!=": abs(x - y) <= tol}.get(op, True)
        if not (ok if o else ok_neg):
            bad += 1
    return bad, len(doc["trace"])


def select_decisions(arena, trace, free, limit=250):
    """recorded decisions that are small terms once the generalised (free) terms are opaque"""
    sel = []
    for (a, op, b, o) in trace:
        c = arena.cone({a, b}, stop=free)
        if len(c) <= limit:
            sel.append((a, op, b, o))
    return sel


def analyze_generalised(h, res, scenario, cfg, doc, arena, obs, facts, cuts, prefixes, budget, replay_dir):
    """Obligations of a long run (optimizer loop) with generalisation points.

    Equalities about the returned state are proved with the terms CUT at the generalisation points (the parameters the
    optimizer arrived at become free variables) and with only those recorded decisions that depend on the cut
    variables through small terms (the library's own decisions in its last update).  Inequalities are proved with the
    whole path condition over an abstraction that forgets the inside of every maximal sum of squares (after proving
    which of them are equal).  Dropping definitions or decisions only weakens the hypotheses, so `unsat` is a proof
    for the real terms on this path; `sat` over an abstraction means nothing and is reported as undischarged unless
    the concrete run itself shows the failure (facts)."""
    cfg_label = scenario + ":" + ",".join(f"{k}={v}" for k, v in sorted(cfg.items()))
    res.runs += 1
    res.transitions = getattr(res, "transitions", 0) + len(doc["trace"])
    if doc.get("concretised", 0) > 0:
        res.tool_errors.append(f"{cfg_label}: a symbolic value was concretised {doc['concretised']} times (encoding incomplete)")
    for (name, holds, detail) in facts:
        res.facts_checked += 1
        if not holds:
            record_violation(h, res, scenario, cfg, doc, name, detail, prefixes, replay_dir, inputs=doc["vars"])
    if doc.get("garbage_reads", 0) > 0:
        record_violation(h, res, scenario, cfg, doc, "C10.no_garbage", f"{doc.get('garbage_reads')} reads of uninitialised scalars", prefixes, replay_dir, inputs=doc["vars"], native_confirm=False)
    # vacuity guard: the path condition is satisfied by the recorded inputs (floating-point evaluation of the exact terms)
    if doc.get("undefined_decisions", 0) > 0:
        res.tool_errors.append(f"{cfg_label}: {doc['undefined_decisions']} decisions were taken on undefined (NaN-like) shadow values: path not meaningful")
    badpc, npc = _pc_holds_numerically(arena, doc)
    if badpc:
        res.tool_errors.append(f"{cfg_label}: {badpc} of {npc} recorded decisions do not hold at the recorded inputs (shadow rounding): path not witnessed")
    trace = doc["trace"]
    # ---- equalities (cut at the generalisation points)
    todo = []
    for ob in obs:
        for (label, a, b) in ob["eqs"]:
            res.obligations += 1
            if a == -1 or b == -1:
                continue
            if a == b:
                res.identical += 1
                res.discharged += 1
                continue
            todo.append((ob["name"], label, a, b, ob.get("given", []), set(ob.get("cuts", []))))
    variants = []
    for (_n, _l, a, b, given, ocuts) in todo:
        free = (cuts | ocuts) - {a, b}
        roots = {a, b}
        for (x, _op, y) in given:
            roots.update((x, y))
        vs = []
        # fewer hypotheses are easier for the solvers: first only the decisions that are small terms over the free ones
        for limit in (60, 250):
            sel = select_decisions(arena, trace, free, limit)
            r2 = set(roots)
            for (x, _op, y, _o) in sel:
                r2.update((x, y))
            defs, ids = arena.abstract_definitions(r2, free)
            pc = [f"(assert {arena.rel(x, op, y, o)})" for (x, op, y, o) in sel]
            gv = [f"(assert {arena.rel(x, op, y)})" for (x, op, y) in given]
            try:
                if len(ids) > 600:
                    raise ToolFailure("cone too large for the fraction-free encoding")
                ff = smt.FF(arena, ids, free=free)
                base = ff.lines + ff.constraints_for(ids) + [f"(assert {ff.rel(x, op, y, o)})" for (x, op, y, o) in sel]
                vs.append((f"abstract{limit}-ff", base, [f"(assert {ff.rel(x, op, y)})" for (x, op, y) in given] + [f"(assert {ff.rel(a, '!=', b)})"]))
            except Exception:
                pass
            vs.append((f"abstract{limit}", defs + pc, gv + [f"(assert (not (= {arena.name(a)} {arena.name(b)})))"]))
            nsel = len(sel)
        variants.append(vs)
    verdicts = solve_many_variants(variants, budget, False, res.stats)
    for (oname, label, a, b, _g, _c), var, v in zip(todo, variants, verdicts):
        full = f"{oname}/{label}"
        if v.result == "unsat":
            res.discharged += 1
            res.nontrivial.add((arena.struct_hash(a), arena.struct_hash(b)))
            if len(res.samples) < 8:
                res.samples.append({"config": cfg_label, "obligation": full, "verdict": repr(v), "query": var[0][2][-1][:300],
                                    "path_condition": f"subsets of the {len(trace)} recorded decisions (those that are small terms over the generalised ones)", "term_nodes": len(var[0][1])})
        else:
            # `sat` over the abstraction is not a counterexample; the concrete run is the witness if there is one
            d64 = f64_eval(h, scenario, cfg, doc["vars"])
            res.replays += 1
            bad = numeric_failures(d64, [oname])
            if bad:
                record_violation(h, res, scenario, cfg, doc, oname, f"{label}: not provable and the native run at the recorded inputs shows lhs != rhs", prefixes, replay_dir, inputs=doc["vars"], label=label)
            else:
                res.undischarged.append((cfg_label, full, repr(v) + " [abstraction]"))
    # ---- inequalities (whole path condition, sums of squares abstracted)
    for ob in obs:
        for (label, a, op, b) in ob.get("ineqs", []):
            res.obligations += 1
            full = f"{ob['name']}/{label}"
            v = prove_ineq_sos(arena, doc, a, op, b, budget, res.stats)
            if v.result == "unsat":
                res.discharged += 1
                res.nontrivial.add((arena.struct_hash(a), arena.struct_hash(b)))
                res.samples.append({"config": cfg_label, "obligation": full, "verdict": repr(v), "query": f"(assert (not ({op} {arena.name(a)} {arena.name(b)})))",
                                    "path_condition": f"all {len(trace)} recorded decisions of optimizer and library", "term_nodes": len(arena.cone({a, b}))})
            else:
                res.undischarged.append((cfg_label, full, repr(v) + " [abstraction]"))
    return None


def prove_ineq_sos(arena, doc, a, op, b, budget, stats):
    trace = doc["trace"]
    roots = {a, b}
    for (x, _o, y, _r) in trace:
        roots.update((x, y))
    cone = set(arena.cone(roots))
    nn = arena.nonneg_map()
    parents = {}
    for i in cone:
        for c in arena.kids(i):
            parents.setdefault(c, []).append(i)
    cand = [i for i in cone if arena.nodes[i][0] == "+" and nn[i] and not any(arena.nodes[p][0] == "+" and nn[p] for p in parents.get(i, []))]
    cand = [i for i in cand if i not in (a, b)]
    val = arena.float_values(doc["vars"])
    groups = []
    for i in sorted(cand):
        if val[i] is None:
            continue
        for g in groups:
            if abs(val[g[0]] - val[i]) <= 1e-12 * max(1e-300, abs(val[i])):
                g.append(i)
                break
        else:
            groups.append([i])
    pairs = [(g[0], j) for g in groups for j in g[1:]]
    variants = []
    for (x, y) in pairs:
        ids = arena.cone({x, y})
        cons = {}
        defs = arena.definitions(ids, cons)
        lines = defs + [ln for i in ids for ln in cons.get(i, [])]
        variants.append([("plain", lines, [f"(assert (not (= {arena.name(x)} {arena.name(y)})))"])])
    quick = Budget("quick")
    quick.full_s = min(10, budget.full_s)
    eqs = []
    if variants:
        for (x, y), v in zip(pairs, solve_many_variants(variants, quick, False, stats)):
            if v.result == "unsat":
                eqs.append((x, y))
    free = set(cand)
    goal = [f"(assert (not ({op} {arena.name(a)} {arena.name(b)})))"]
    # first attempt: only the decisions that are small once the sums of squares are opaque (fast when it works)
    small = [(x, o, y, r) for (x, o, y, r) in trace if len(arena.cone({x, y}, stop=free)) <= 60]
    roots2 = {a, b}
    for (x, _o, y, _r) in small:
        roots2.update((x, y))
    defs2, ids2 = arena.abstract_definitions(roots2, free)
    idset = set(ids2)
    lem2 = [f"(assert (= {arena.name(x)} {arena.name(y)}))" for (x, y) in eqs if x in idset and y in idset]
    pc2 = [f"(assert {arena.rel(x, o, y, r)})" for (x, o, y, r) in small]
    v2, _ = smt.solve_text(defs2 + lem2 + pc2, goal, min(budget.full_s, 40), uf=False, stats=stats)
    if v2.result == "unsat":
        return v2
    # second attempt: the whole path condition
    defs, _ids = arena.abstract_definitions(roots, free)
    lemmas = [f"(assert (= {arena.name(x)} {arena.name(y)}))" for (x, y) in eqs]
    pc = [f"(assert {arena.rel(x, o, y, r)})" for (x, o, y, r) in trace]
    v, _ = smt.solve_text(defs + lemmas + pc, goal, budget.full_s, uf=False, stats=stats)
    return v


def analyze_run(h, res, scenario, cfg, doc, prefixes, budget, replay_dir, expect_sat=()):
    """Discharge every selected obligation of one symbolic run (= one path)."""
    arena = smt.Arena(doc["nodes"])
    obs, facts = select_obligations(doc, prefixes)
    roots = set()
    for ob in obs:
        for (_l, a, b) in ob["eqs"]:
            roots.update((a, b))
        for (a, _op, b) in ob.get("given", []):
            roots.update((a, b))
        for (_l, a, _op, b) in ob.get("ineqs", []):
            roots.update((a, b))
    garbage = -1 in roots
    cuts = set(doc["out"].get("cuts", []))
    if cuts:
        return analyze_generalised(h, res, scenario, cfg, doc, arena, obs, facts, cuts, prefixes, budget, replay_dir)
    enc = Encoded(arena, doc, roots)
    ids, uf, pc = enc.ids, enc.uf, enc.pc
    cfg_label = scenario + ":" + ",".join(f"{k}={v}" for k, v in sorted(cfg.items()))
    res.runs += 1
    res.transitions = getattr(res, "transitions", 0) + len(doc["trace"])
    if doc.get("concretised", 0) > 0:
        res.tool_errors.append(f"{cfg_label}: a symbolic value was concretised {doc['concretised']} times (encoding incomplete)")
    # ---- facts (concrete on this path)
    for (name, holds, detail) in facts:
        res.facts_checked += 1
        if not holds:
            record_violation(h, res, scenario, cfg, doc, name, detail, prefixes, replay_dir, inputs=doc["vars"])
    if doc.get("garbage_reads", 0) > 0 or garbage:
        record_violation(h, res, scenario, cfg, doc, "C10.no_garbage", f"{doc.get('garbage_reads')} reads of uninitialised scalars", prefixes, replay_dir, inputs=doc["vars"], native_confirm=False)
    # ---- path feasibility (vacuity guard for everything below)
    check_div = getattr(res, "check_divisors", True)
    base0 = enc.base_plain(assume_div=False)
    v2, _ = smt.solve_text(base0, [], budget.full_s, uf=uf, stats=res.stats)
    if v2.result == "unsat":
        res.tool_errors.append(f"{cfg_label}: path condition unsatisfiable (vacuous path)")
        return enc
    if v2.result != "sat":
        res.undischarged.append((cfg_label, "path-feasibility", repr(v2)))
    # ---- divisors are non-zero on this path (definedness; "all values stay finite" over the reals)
    if check_div:
        # only divisions performed by the code under test (cone of the left-hand sides = code outputs, and of the
        # path condition); the specification's own case formulas divide under their own premises
        code_roots = set(enc.ctx_roots)
        for ob in obs:
            for (_l, a, _b) in ob["eqs"]:
                if a >= 0:
                    code_roots.add(a)
        divs = [d for d in arena.divisors(arena.cone(code_roots)) if arena.nodes[d][0] != "c"]
        variants = [[("plain", enc.base_plain((d,), assume_div=False), [f"(assert (= {arena.name(d)} 0.0))"])] for d in divs]
        verdicts = solve_many_variants(variants, budget, uf, res.stats)
        for dnode, var, v in zip(divs, variants, verdicts):
            res.obligations += 1
            if v.result == "unsat":
                res.discharged += 1
            elif v.result == "sat":
                vals = model_via_api(var[0][1], var[0][2], list(var_names(arena, ids)), budget.full_s)
                record_violation(h, res, scenario, cfg, doc, "divisor_nonzero", f"divisor node {dnode} can be zero on this path", prefixes, replay_dir,
                                 inputs=model_inputs(arena, ids, vals, doc), native_confirm="nonfinite")
            else:
                res.undischarged.append((cfg_label, f"divisor_nonzero#{dnode}", repr(v)))
    # ---- equalities
    todo = []
    for ob in obs:
        for (label, a, b) in ob["eqs"]:
            res.obligations += 1
            if a == -1 or b == -1:
                continue  # reported as garbage above
            if a == b:
                res.identical += 1
                res.discharged += 1
                continue
            todo.append((ob["name"], label, a, b, ob.get("given", [])))
    variants = [enc.variants_eq(t[2], t[3], given=t[4]) for t in todo]
    verdicts = solve_many_variants(variants, budget, uf, res.stats)
    for (oname, label, a, b, _given), var, v in zip(todo, variants, verdicts):
        full = f"{oname}/{label}"
        if v.result == "unsat":
            res.discharged += 1
            res.nontrivial.add((arena.struct_hash(a), arena.struct_hash(b)))
            if len(res.samples) < 6 and len(res.samples) < 1 + res.runs:
                res.samples.append({"config": cfg_label, "obligation": full, "verdict": repr(v),
                                    "query": (var[0][2][0][:300]), "path_condition": pc[:6], "term_nodes": len(ids)})
        elif v.result == "sat":
            vals = model_via_api(var[0][1], var[0][2], list(var_names(arena, ids)), budget.full_s)
            record_violation(h, res, scenario, cfg, doc, oname, f"{label}: solver found inputs with lhs != rhs", prefixes, replay_dir,
                             inputs=model_inputs(arena, ids, vals, doc), shadow_inputs=doc["vars"], label=label)
        else:
            res.undischarged.append((cfg_label, full, repr(v)))
    return enc


def solve_many_variants(variants, budget, uf, stats, workers=10):
    from concurrent.futures import ThreadPoolExecutor
    if not variants:
        return []
    local = [dict() for _ in variants]

    def one(i):
        if getattr(budget, "expired", None) and budget.expired():
            return smt.Verdict("unknown", "none", 0.0, "wall-clock budget of this run exhausted")
        t = budget.per_query_s() if hasattr(budget, "per_query_s") else budget.full_s
        v, _ = smt.solve_variants(variants[i], t, uf=uf, stats=local[i])
        if v.result not in ("sat", "unsat") and hasattr(budget, "timeouts"):
            budget.timeouts += 1
        return v
    with ThreadPoolExecutor(max_workers=workers) as ex:
        out = list(ex.map(one, range(len(variants))))
    for st in local:
        stats["queries"] += st.get("queries", 0)
        stats["solver_s"] += st.get("solver_s", 0.0)
        for k, (c, t) in st.get("by_solver", {}).items():
            stats["by_solver"].setdefault(k, [0, 0.0])
            stats["by_solver"][k][0] += c
            stats["by_solver"][k][1] += t
    return out


def solve_many(base, goals, budget, uf, stats, workers=10):
    """discharge many small queries in parallel, one solver process each (an incremental z3 session is
    far slower on these nonlinear queries than a fresh process: measured 5 s vs 0.03 s)"""
    from concurrent.futures import ThreadPoolExecutor
    if not goals:
        return []
    local = [dict() for _ in goals]

    def one(i):
        if getattr(budget, "expired", None) and budget.expired():
            return smt.Verdict("unknown", "none", 0.0, "wall-clock budget of this run exhausted")
        t = budget.per_query_s() if hasattr(budget, "per_query_s") else budget.full_s
        v, _ = smt.solve_text(base, goals[i], t, uf=uf, stats=local[i])
        if v.result not in ("sat", "unsat") and hasattr(budget, "timeouts"):
            budget.timeouts += 1
        return v
    with ThreadPoolExecutor(max_workers=workers) as ex:
        out = list(ex.map(one, range(len(goals))))
    for st in local:
        stats["queries"] += st.get("queries", 0)
        stats["solver_s"] += st.get("solver_s", 0.0)
        for k, (c, t) in st.get("by_solver", {}).items():
            stats["by_solver"].setdefault(k, [0, 0.0])
            stats["by_solver"][k][0] += c
            stats["by_solver"][k][1] += t
    return out


def model_inputs(arena, ids, vals, doc):
    """merge a solver model (smt names) into harness input names; variables the model leaves open keep their shadow"""
    inputs = dict(doc["vars"])
    if vals:
        names = var_names(arena, ids)
        for sname, v in vals.items():
            if sname in names:
                inputs[names[sname]] = frac_str(v)
    return inputs


_seen_violation_keys = set()


def record_violation(h, res, scenario, cfg, doc, name, detail, prefixes, replay_dir, inputs, shadow_inputs=None, label=None, native_confirm=True):
    """Replay natively (f64, dev + release); only a reproducing counterexample becomes a violation."""
    key = (scenario, tuple(sorted(cfg.items())), name)
    if key in _seen_violation_keys:
        return
    candidates = [inputs] + ([shadow_inputs] if shadow_inputs else [])
    confirmed = None
    if native_confirm is False:
        confirmed = (inputs, [(name, detail, "", "")], {})
    else:
        for cand in candidates:
            fails = {}
            for profile in ("dev", "release"):
                d64 = f64_eval(h, scenario, cfg, cand, profile)
                res.replays += 1
                # facts about the SVD contract (input matrix, tolerance) have no native counterpart: they are
                # confirmed through any obligation of the property that fails natively for the same inputs
                bad = numeric_failures(d64, [name] if (native_confirm is True and not name.startswith("SVD.")) else [p for p in prefixes if not p.startswith("SVD")])
                if not bad and native_confirm is True and label and not name.startswith("SVD."):
                    # the solver's counterexample may differ in ONE element that is tiny against the rest of its matrix (a block
                    # that is zeroed relative to another block's scale): confirm that element with an elementwise tolerance
                    bad = [b for b in numeric_failures(d64, [name], elementwise=True) if b[1] == label]
                if native_confirm == "nonfinite":
                    bad = [b for b in bad if not isinstance(b[2], (int, float)) or not isinstance(b[3], (int, float))] or \
                          ([("crash", "", 0, 0)] if d64.get("crash") else [])
                fails[profile] = bad
            if fails["dev"] or fails["release"]:
                confirmed = (cand, fails["dev"] or fails["release"], {k: bool(v) for k, v in fails.items()})
                break
    if confirmed is None:
        res.unconfirmed.append({"config": {"scenario": scenario, **cfg}, "obligation": name, "detail": detail})
        return
    _seen_violation_keys.add(key)
    cand, bad, profiles = confirmed
    os.makedirs(replay_dir, exist_ok=True)
    path = os.path.join(replay_dir, f"{res.prop}-{len(res.violations)}.json")
    rec = {"property": res.prop, "engine": "R", "scenario": scenario, "cfg": cfg, "inputs": cand, "obligation": name, "detail": detail,
           "native_failures": [list(map(str, b)) for b in bad[:8]], "profiles_failing": profiles,
           "role": f"{scenario}:{name}:" + ",".join(f"{k}={cfg[k]}" for k in sorted(cfg) if k in ("hist", "w", "mrhs", "par", "eps", "deriv_fail", "kind"))}
    write_json(path, rec)
    rec["replay"] = path
    res.violations.append(rec)


# =============================================================================================
# path exploration (generational search)
# =============================================================================================
def explore(h, res, scenario, cfg, prefixes, budget, replay_dir):
    """Run the scenario, discharge its obligations, then flip every recorded decision whose other side
    is feasible and repeat (bounded by budget.max_paths).  The uncovered remainder is counted."""
    work = [(None, 0)]     # (inputs, bound)
    seen_paths = set()
    paths = 0
    max_paths = min(budget.max_paths, int(cfg.get("maxpaths", budget.max_paths))) if isinstance(cfg, dict) else budget.max_paths
    while work and paths < max_paths:
        if getattr(budget, "expired", None) and budget.expired():
            res.undischarged.append((scenario + ":" + ",".join(f"{k}={v}" for k, v in sorted(cfg.items())), "configuration not explored", "wall-clock budget of this run exhausted"))
            break
        inputs, bound = work.pop(0)
        doc = h.run("sym", scenario, cfg, inputs=inputs)
        if doc.get("crash"):
            res.tool_errors.append(f"{scenario} {cfg}: harness crashed: {doc.get('log', '')[-300:]}")
            return
        unsup = [f for f in doc["out"]["facts"] if f[0] == "UNSUPPORTED"]
        if unsup:
            res.tool_errors.append(f"{scenario} {cfg}: {unsup[0][2]} (the code under test calls an SVD the symbolic engine cannot carry: no verdict for this configuration)")
            return
        arena0 = smt.Arena(doc["nodes"])
        sig = tuple((arena0.struct_hash(a), op, arena0.struct_hash(b), o) for (a, op, b, o) in doc["trace"])
        if sig in seen_paths:
            continue
        seen_paths.add(sig)
        paths += 1
        res.paths += 1
        enc = analyze_run(h, res, scenario, cfg, doc, prefixes, budget, replay_dir)
        if enc is None or (isinstance(cfg, dict) and cfg.get("noflip")):
            # long runs through the optimizer loop: paths are varied through the configurations (budget, shapes, default
            # values), not by flipping each of several hundred recorded decisions
            continue
        arena = enc.arena
        trace = doc["trace"]
        names = var_names(arena, enc.ctx_cone)
        ctx_defs = enc.pdefs + enc._plain_cons(enc.ctx_cone, False) + enc.asm
        for i in range(bound, len(trace)):
            if getattr(budget, "expired", None) and budget.expired():
                res.frontier_unknown += len(trace) - i
                break
            prefix = enc.pc[:i]
            a, op, b, o = trace[i]
            flip = [f"(assert {arena.rel(a, op, b, not o)})"]
            v, _ = smt.solve_text(ctx_defs + prefix, flip, budget.inc_s, uf=enc.uf, stats=res.stats, configs=smt.SOLVER_CONFIGS[:3])
            if v.result == "unsat":
                continue
            vals = None
            if v.result == "sat":
                try:
                    vals = model_via_api(ctx_defs + prefix, flip, list(names), budget.full_s)
                except Exception as e:
                    vals = None
            if vals is None:
                res.frontier_unknown += 1
                continue
            new_inputs = dict(doc["vars"])
            for sname, val in vals.items():
                if sname in names:
                    new_inputs[names[sname]] = frac_str(val)
            work.append((new_inputs, i + 1))
    if work:
        res.frontier_unknown += len(work)


# =============================================================================================
# vacuity twins: a deliberately wrong specification must be refuted (sat) and the refutation must replay
# =============================================================================================
def vacuity_twins(h, res, prop, budget, configs=None, prefixes=None):
    import props_r
    spec = props_r.R_PROPS[prop]
    prefixes = prefixes or spec.get("twin_prefixes") or spec["prefixes"]
    tw = props_r.twin_configs(prop)
    default_prefixes = prefixes
    for entry in tw:
        scenario, cfg = entry[0], entry[1]
        prefixes = entry[2] if len(entry) > 2 else default_prefixes
        doc = h.run("sym", scenario, cfg)
        label = scenario + ":" + ",".join(f"{k}={v}" for k, v in sorted(cfg.items()))
        if doc.get("crash"):
            res.tool_errors.append(f"vacuity twin {label} crashed")
            continue
        arena = smt.Arena(doc["nodes"])
        obs, _facts = select_obligations(doc, prefixes)
        if doc["out"].get("cuts"):
            # generalised runs: the wrong specification must end as violations that replay natively (never as proofs)
            tmp = Result(prop)
            analyze_generalised(h, tmp, scenario, cfg, doc, arena, obs, [], set(doc["out"]["cuts"]), prefixes, budget, os.path.join(h.run_dir, "twin-replays"))
            for k in list(_seen_violation_keys):
                if k[0] == scenario and dict(k[1]).get("twin"):
                    _seen_violation_keys.discard(k)
            res.replays += tmp.replays
            res.vacuity.append({"config": label, "wrong_spec_obligations": tmp.obligations, "proved_although_wrong": tmp.discharged - tmp.identical,
                                "refuted_natively": len(tmp.violations), "not_provable": len(tmp.undischarged)})
            if not tmp.violations:
                res.tool_errors.append(f"vacuity twin {label}: the deliberately wrong specification was not refuted")
            continue
        roots = set()
        for ob in obs:
            for (_l, a, b) in ob["eqs"]:
                roots.update((a, b))
        enc = Encoded(arena, doc, roots)
        goals = [(ob["name"], l, a, b) for ob in obs for (l, a, b) in ob["eqs"] if a != b and a >= 0 and b >= 0]
        verdicts = solve_many_variants([enc.variants_eq(g[2], g[3]) for g in goals[:24]], budget, enc.uf, res.stats)
        sat = [g for g, v in zip(goals, verdicts) if v.result == "sat"]
        # fact-based obligations: the twin must make at least one selected fact come out false
        sat += [f for f in _facts if not f[1] and f[0] != "no_panic"]
        native = False
        if sat:
            d64 = h.run("f64", scenario, cfg)
            res.replays += 1
            native = bool(numeric_failures(d64, prefixes))
        res.vacuity.append({"config": label, "wrong_spec_obligations": len(goals), "refuted_by_solver": len(sat), "refutation_replays_natively": native})
        if not sat or not native:
            res.tool_errors.append(f"vacuity twin {label}: the deliberately wrong specification was not refuted (solver sat={len(sat)}, native={native})")
