"""./check replay <file>: re-run a recorded counterexample natively against /repo's current tree."""
import json, sys
from common import *


def main(path):
    rec = json.load(open(path))
    eng = rec.get("engine")
    if eng == "R":
        import engine_r
        h = engine_r.Harness(tag="replay")
        bad_any = False
        for profile in ("dev", "release"):
            mode = rec["cfg"].get("mode", "f64") if isinstance(rec.get("cfg"), dict) else "f64"
            d = h.run(mode, rec["scenario"], {k: v for k, v in (rec["cfg"] or {}).items() if k != "mode"}, inputs=rec["inputs"], profile=profile)
            bad = engine_r.numeric_failures(d, [rec["obligation"]])
            print(f"[{profile}] failing obligations:", bad[:5] if bad else "none")
            bad_any = bad_any or bool(bad)
        print("REPRODUCED" if bad_any else "NOT-REPRODUCED")
        return 1 if bad_any else 0
    if eng == "K":
        import engine_k
        return engine_k.replay(rec)
    if eng == "M":
        import engine_m
        return engine_m.replay(rec)
    print("unknown engine in replay file")
    return 2
