"""Merge the parts produced by the engines into /verif/evidence/<id>.json, print the verdict lines."""
import json, os, sys
from common import *

KNOWN = os.path.join(VERIF, "known_findings.json")
REPLAY_DIR = os.path.join(VERIF, "replays")


def load_known():
    if not os.path.exists(KNOWN):
        return {"open": [], "fixed": []}
    with open(KNOWN) as f:
        return json.load(f)


def finish(prop, tier, seed, parts, wall_s):
    known = load_known()
    violations, known_hits, unconfirmed, undischarged, tool_errors = [], [], [], [], []
    for p in parts:
        for v in p.get("violations", []):
            hit = None
            for k in known.get("open", []):
                if k.get("property") == prop and k.get("role") and k["role"] == v.get("role"):
                    hit = k
            (known_hits if hit else violations).append((v, hit))
        unconfirmed += p.get("unconfirmed", [])
        undischarged += [(p["engine"],) + tuple(u) for u in p.get("undischarged", [])]
        tool_errors += [f"{p['engine']}: {e}" for e in p.get("tool_errors", [])]
    obligations = sum(p.get("obligations", 0) for p in parts)
    discharged = sum(p.get("discharged", 0) for p in parts)
    queries = sum(p.get("queries", 0) for p in parts)
    cov = {
        "states": max(1, sum(p.get("states", 0) for p in parts)),
        "transitions": max(1, sum(p.get("transitions", 0) for p in parts)),
        "traces_validated_against_impl": sum(p.get("traces_validated", 0) for p in parts),
        "samples": [s for p in parts for s in p.get("samples", [])][:10] or [{"note": "no obligation was generated"}],
        "evaluations": max(1, queries),
        "distinct_nontrivial": sum(p.get("nontrivial", 0) for p in parts),
        "rule": "evaluations = solver queries (SMT / CBMC) issued by this run; a case is distinct and non-trivial when the two sides of the "
                "obligation are structurally different terms (hash of the term DAG) or a distinct Kani harness / MIR path obligation, "
                "and the solver returned a verdict for it",
        "obligations": obligations,
        "discharged": discharged,
        "undischarged": [list(map(str, u)) for u in undischarged][:40],
        "undischarged_count": len(undischarged),
        "unconfirmed_counterexamples": unconfirmed[:10],
        "solver_seconds": round(sum(p.get("solver_s", 0.0) for p in parts), 2),
        "engines": [{k: v for k, v in p.items() if k not in ("violations", "samples", "unconfirmed", "undischarged")} for p in parts],
        "repo_source_hash": repo_source_hash(),
        "known_findings_hit": [k["role"] for (_v, k) in known_hits],
        "exhaustive": False,
        "explanation": "bounded symbolic checking of the real code: see `engines` for functions encoded, bounds, queries and solver time",
    }
    ev = {
        "property_id": prop,
        "tier": tier if tier in ("quick", "thorough") else "quick",
        "seed": seed,
        "level": "model_checking",
        "coverage": cov,
        "assumptions": sorted({a for p in parts for a in p.get("assumptions", [])}),
        "wall_s": round(wall_s, 2),
        "violations": len(violations),
    }
    os.makedirs(os.path.join(VERIF, "evidence"), exist_ok=True)
    write_json(os.path.join(VERIF, "evidence", f"{prop}.json"), ev)
    for (v, k) in known_hits:
        print(f"KNOWN-FINDING: property={prop} {k.get('what', k['role'])}")
    for u in undischarged[:30]:
        print(f"INCONCLUSIVE property={prop} obligation={'|'.join(map(str, u))[:300]}")
    for (v, _k) in violations:
        print(f"VIOLATION property={prop} replay={v.get('replay')}")
        print(f"  detail: {v.get('obligation')}: {v.get('detail')}"[:600])
    print(f"SUMMARY property={prop} tier={tier} obligations={obligations} discharged={discharged} undischarged={len(undischarged)} "
          f"violations={len(violations)} known={len(known_hits)} queries={queries} wall_s={wall_s:.1f}")
    if violations:
        return 1
    if tool_errors or unconfirmed:
        for e in tool_errors[:20]:
            print(f"TOOL-FAILURE property={prop}: {e}")
        for u in unconfirmed[:10]:
            print(f"TOOL-FAILURE property={prop}: solver counterexample did not reproduce natively: {json.dumps(u)[:400]}")
        return 2
    return 0
