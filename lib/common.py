"""Shared plumbing: scratch directories, overlay of /repo's working tree, subprocess helpers."""
import atexit, hashlib, json, os, shutil, subprocess, sys, time

VERIF = os.path.dirname(os.path.dirname(os.path.abspath(__file__)))
REPO = os.environ.get("VERIF_REPO", "/repo")
SCRATCH = os.environ.get("VERIF_SCRATCH", "/var/tmp/verif-scratch")
NALGEBRA_PATCHED = os.path.join(SCRATCH, "nalgebra-patched")
PY = sys.executable

# module files of varpro that get an access/harness module appended in the overlay
OVERLAY_MODULES = {
    "util": "src/util/mod.rs",
    "basis_function": "src/basis_function/mod.rs",
    "model": "src/model/mod.rs",
    "model_builder": "src/model/builder/mod.rs",
    "levmar": "src/solvers/levmar/mod.rs",
    "levmar_builder": "src/solvers/levmar/builder.rs",
    "statistics": "src/statistics/mod.rs",
}


def uptime():
    with open("/proc/uptime") as f:
        return float(f.read().split()[0])


def log(*a):
    print(*a, file=sys.stderr, flush=True)


def cargo_env(extra=None):
    env = dict(os.environ)
    env["CARGO_NET_OFFLINE"] = "true"
    env.pop("RUSTC_WRAPPER", None)
    if extra:
        env.update(extra)
    return env


def run(cmd, cwd=None, env=None, timeout=None, check=False, capture=True):
    """run a command in its own process group; on timeout the whole group is killed (cargo -> kani -> cbmc)"""
    import signal
    t0 = uptime()
    p = subprocess.Popen(cmd, cwd=cwd, env=env, text=True, start_new_session=True,
                         stdout=subprocess.PIPE if capture else None, stderr=subprocess.STDOUT if capture else None)
    try:
        out, _ = p.communicate(timeout=timeout)
        rc, out = p.returncode, out or ""
    except subprocess.TimeoutExpired:
        try:
            os.killpg(p.pid, signal.SIGKILL)
        except ProcessLookupError:
            pass
        try:
            out, _ = p.communicate(timeout=10)
        except Exception:
            out = ""
        rc, out = 124, (out or "") + "\n[timeout]"
    dt = uptime() - t0
    if check and rc != 0:
        log(out[-6000:])
        raise ToolFailure(f"command failed rc={rc}: {' '.join(cmd)[:200]}")
    return rc, out, dt


class ToolFailure(Exception):
    """The machinery failed (no verdict): exit code 2."""


_run_dirs = []


def new_run_dir(tag):
    os.makedirs(SCRATCH, exist_ok=True)
    d = os.path.join(SCRATCH, f"run-{tag}-{os.getpid()}-{int(uptime()*1000)}")
    os.makedirs(d)
    _run_dirs.append(d)
    return d


def _cleanup():
    if os.environ.get("VERIF_KEEP"):
        return
    for d in _run_dirs:
        shutil.rmtree(d, ignore_errors=True)


atexit.register(_cleanup)


def ensure_nalgebra():
    sys.path.insert(0, os.path.join(VERIF, "patches"))
    import nalgebra_hook
    os.makedirs(SCRATCH, exist_ok=True)
    return nalgebra_hook.generate(NALGEBRA_PATCHED)


def repo_source_hash():
    """sha256 over the .rs / Cargo.toml files of /repo's working tree (recorded in the evidence)."""
    h = hashlib.sha256()
    files = []
    for root, dirs, fs in os.walk(REPO):
        dirs[:] = [d for d in dirs if d not in ("target", ".git")]
        for f in fs:
            if f.endswith(".rs") or f == "Cargo.toml":
                files.append(os.path.join(root, f))
    for f in sorted(files):
        h.update(f.encode())
        with open(f, "rb") as fh:
            h.update(fh.read())
    return h.hexdigest()[:16]


def make_overlay(run_dir, modules, cfg_expr, harness_dir, suffix=""):
    """Copy /repo's current working tree to run_dir/repo and append, to the end of the chosen module
    files, `#[cfg(<cfg_expr>)] #[path = "<harness_dir>/<module>.rs"] pub mod verif_access;`.
    No existing line is changed.  Returns the overlay path."""
    dst = os.path.join(run_dir, "repo")
    rc, out, _ = run(["rsync", "-a", "--delete", "--exclude", "target", "--exclude", ".git", REPO + "/", dst + "/"])
    if rc != 0:
        raise ToolFailure("rsync of /repo failed: " + out[-500:])
    for m in modules:
        rel = OVERLAY_MODULES[m]
        hp = os.path.join(harness_dir, m + ".rs")
        if not os.path.exists(hp):
            raise ToolFailure(f"missing harness module {hp}")
        p = os.path.join(dst, rel)
        if not os.path.exists(p):
            raise ToolFailure(f"module file {rel} is missing in /repo (layout changed): no verdict")
        with open(p, "a") as f:
            f.write(f"\n#[cfg({cfg_expr})]\n#[allow(unused, non_snake_case, missing_docs, clippy::all)]\n#[path = \"{hp}\"]\npub mod verif_access{suffix};\n")
    return dst


def write_json(path, obj):
    tmp = path + ".tmp"
    with open(tmp, "w") as f:
        json.dump(obj, f, indent=1, default=str)
    os.replace(tmp, path)
