"""Run the Engine-K (Kani) part of a property check."""
import json, os
from common import *
import engine_k, evidence

# harness -> (tier, cap_s quick, cap_s thorough, what it decides, native replay scenarios)
H = {
    "k_to_vector_u32": ("quick", 300, 600, "util::to_vector: element (i,s) of a 3x2 matrix lands at s*N+i, all 6 written (all u32 values)", None),
    "k_copy_matrix_to_column": ("quick", 300, 600, "levmar::copy_matrix_to_column writes the whole Jacobian column in column-major order (uninitialised target)", None),
    "k_weights_mul_probe_f32": ("quick", 300, 600, "&Weights * M scales row i by w_i bit-for-bit (weights from {1,-2,0.5,0}, all f32 matrix entries)", None),
    "k_weights_mul_f32": ("thorough", 0, 3000, "&Weights * M == m_ij*w_i bit-for-bit for all f32 weights and entries; unit weights identity; size predicate", None),
    "k_arity_1": ("quick", 300, 600, "BasisFunction::eval arity 1: argument i receives params[i]", None),
    "k_arity_2": ("thorough", 300, 600, "arity 2 dispatch", None), "k_arity_3": ("quick", 300, 600, "arity 3 dispatch", None),
    "k_arity_4": ("thorough", 300, 600, "arity 4 dispatch", None), "k_arity_5": ("thorough", 300, 600, "arity 5 dispatch", None),
    "k_arity_6": ("thorough", 300, 600, "arity 6 dispatch", None), "k_arity_7": ("quick", 300, 600, "arity 7 dispatch", None),
    "k_arity_8": ("thorough", 300, 600, "arity 8 dispatch", None), "k_arity_9": ("thorough", 300, 600, "arity 9 dispatch", None),
    "k_arity_10": ("quick", 300, 600, "arity 10 dispatch", None),
    "k_model_eval_22": ("quick", 300, 900, "SeparableModel<u8>: set_params length guard keeps state; eval Ok, N x M, every element written; index >= P is Err", None),
    "k_model_eval_23": ("quick", 300, 900, "eval with a function returning N+1 elements is Err(UnexpectedFunctionOutput{N, N+1})", None),
    "k_model_eval_12": ("thorough", 400, 900, "eval with a function returning N-1 elements is Err", None),
    "k_model_eval_20": ("thorough", 400, 900, "eval with a function returning an empty vector is Err", None),
    "k_model_eval_33": ("thorough", 400, 1200, "3x2 model: every element written", None),
    "k_band_dataflow_f64": ("quick", 300, 600, "confidence_band_radius: quantile looked up once at ((p+1)/2, dof as f64); entry i = t*sigma_i; one entry per sample", None),
    "k_band_quantile_argument_all_p": ("quick", 300, 1800, "for EVERY f64 p in (0,1): the quantile is looked up once at exactly ((p+1)/2, dof) and the entry is t*sigma", None),
    "k_band_quantile_argument_all_p_f32": ("quick", 300, 1800, "f32, for EVERY p in (0,1): quantile level formed in f64 as ((p as f64)+1)/2", None),
    "k_band_dataflow_f32": ("quick", 300, 600, "same for f32: product formed in f64 and rounded once", None),
    "k_band_rejects_bad_probability": ("quick", 300, 600, "EVERY f64 p outside (0,1) (incl. NaN, inf) panics: code after the call unreachable", [("bandpanic", {})]),
    "k_band_accepts_open_interval": ("quick", 300, 600, "every f64 p inside (0,1) is accepted without panic", None),
    "k_band_monotone_in_t_f32": ("thorough", 0, 1200, "t1<=t2, sigma>=0 => t1*sigma <= t2*sigma in IEEE f32 (radius non-decreasing in the quantile)", None),
    "k_extract_concat_u32": ("quick", 300, 600, "statistics::extract_range returns [start,end) in order; concat_colwise pastes columns", None),
    "k_fit_err_on_absent_cache": ("quick", 300, 900, "real fit -> real LM on a problem without cache (model failed to evaluate): Err(User) carrying the unchanged problem", None),
    "k_fit_ok_on_zero_residuals": ("thorough", 0, 1200, "real fit -> real LM: zero residuals => Ok(ResidualsZero) with the coefficients", None),
    "k_fit_maps_termination": ("thorough", 900, 1200, "real fit -> real LM: no cache => Err(User) carrying the problem; zero residuals => Ok(ResidualsZero); Ok <=> was_successful", None),
    "k_fit_err_on_failing_derivative": ("thorough", 900, 1200, "real fit -> real LM: failing derivative => None Jacobian => Err(User); residuals still those of the reported parameters", None),
    "k_set_params_fault_logic": ("quick", 420, 1500, "set_params from a filled cache with a rejecting model and/or failing eval: cache dropped, nothing exposed, SVD not even computed, params() = model's",
                                 [("core", dict(n=3, m=2, s=1, p=1, w="diag", hist=2)), ("core", dict(n=3, m=2, s=1, p=1, w="diag", hist=3))]),
    "k_update_fills_cache": ("thorough", 900, 2400, "successful update from an empty cache (concrete SVD contract): coefficients/residuals of the new state", None),
    "k_into_sequential_preserves_state": ("quick", 300, 900, "into_sequential moves Y_w, model, epsilon (bit pattern), weights, cache unchanged", None),
    "k_nonfinite_never_reaches_svd": ("quick", 600, 2400, "for ALL f64 bit patterns of a 2x2 basis matrix and of the weights: the matrix handed to the SVD is finite (SVD precondition), at build",
                                      [("nonfinite", dict(n=3, p=1, val=v, where="phi", i=1, j=0)) for v in ("nan", "inf")] + [("nonfinite", dict(n=5, p=2, val="nan", where="phi", i=0, j=1))]),
    "k_nonfinite_never_reaches_svd_parallel": ("quick", 600, 2400, "same for the parallel flavour (its own set_params implementation), built with --features parallel",
                                               [("nonfinite", dict(n=3, p=1, val="nan", where="phi", i=1, j=0, par=1)), ("nonfinite", dict(n=5, p=2, val="nan", where="phi", i=0, j=1, par=1))]),
    "k_no_panic_downstream_of_svd": ("thorough", 0, 3600, "with arbitrary SVD factors and all f64 inputs (2x2x1) nothing downstream of the SVD panics", None),
}

K_PROPS = {
    "C02": ["k_to_vector_u32"],
    "C03": ["k_copy_matrix_to_column"],
    "C04": ["k_fit_err_on_absent_cache", "k_fit_ok_on_zero_residuals", "k_fit_maps_termination", "k_fit_err_on_failing_derivative"],
    "C06": ["k_weights_mul_probe_f32", "k_weights_mul_f32"],
    "C07": ["k_to_vector_u32"],
    "C08": ["k_nonfinite_never_reaches_svd", "k_nonfinite_never_reaches_svd_parallel", "k_no_panic_downstream_of_svd", "k_fit_err_on_absent_cache", "k_band_rejects_bad_probability"],
    "C09": ["k_set_params_fault_logic", "k_fit_err_on_absent_cache", "k_fit_err_on_failing_derivative", "k_update_fills_cache"],
    "C10": ["k_model_eval_22", "k_copy_matrix_to_column", "k_model_eval_33"],
    "C11": ["k_into_sequential_preserves_state"],
    "C13": ["k_extract_concat_u32"],
    "C14": ["k_band_quantile_argument_all_p", "k_band_quantile_argument_all_p_f32", "k_band_dataflow_f64", "k_band_dataflow_f32", "k_band_rejects_bad_probability", "k_band_accepts_open_interval", "k_band_monotone_in_t_f32"],
    "C16": [f"k_arity_{i}" for i in range(1, 11)],
    "C17": ["k_model_eval_22", "k_model_eval_23", "k_model_eval_12", "k_model_eval_20"],
}
K_ASSUMPTIONS = [
    "Kani 0.68 / CBMC 6.11 semantics of the compiled MIR; unwinding assertions on (a too small bound is reported, not ignored)",
    "Kani's `NaN on <op>` checks are ignored: producing NaN is not a Rust panic",
    "std::hash::RandomState::new stubbed to fixed keys where a HashMap is constructed (empty maps only)",
    "nalgebra's SVD replaced by a contract stub where stated (finite-input precondition asserted; result concrete / arbitrary / path cut)",
    "distrs::StudentsT::ppf replaced by a recording stub returning an arbitrary value (the quantile function itself is trusted)",
    "allocation sizes concrete (2..3 rows/columns); contents symbolic",
]


def run(prop, tier, seed, only=None):
    names = [n for n in K_PROPS.get(prop, []) if (tier == "thorough" or H[n][0] == "quick")]
    if only:
        names = [n for n in names if n in only]
    res = {"engine": "K (Kani 0.68 / CBMC 6.11 proof harnesses inside an overlay of the crate)", "functions": [], "obligations": 0, "discharged": 0, "undischarged": [],
           "violations": [], "unconfirmed": [], "queries": 0, "solver_s": 0.0, "states": 0, "transitions": 0, "samples": [], "nontrivial": 0,
           "tool_errors": [], "assumptions": K_ASSUMPTIONS, "traces_validated": 0, "harnesses": {}}
    if not names:
        return res
    caps = {n: (H[n][1] if tier == "quick" else H[n][2]) for n in names}
    out = {}
    # group by cap so that each batch has one timeout
    for cap in sorted(set(caps.values())):
        batch = [n for n in names if caps[n] == cap]
        plain = [n for n in batch if not n.endswith("_parallel")]
        par = [n for n in batch if n.endswith("_parallel")]
        from concurrent.futures import ThreadPoolExecutor
        with ThreadPoolExecutor(max_workers=2) as ex:
            futs = []
            if plain:
                futs.append(ex.submit(engine_k.run_harnesses, plain, cap, 4))
            if par:
                futs.append(ex.submit(engine_k.run_harnesses, par, cap, 2, ("--features", "parallel")))
            for f in futs:
                out.update(f.result())
    for n in names:
        r = out[n]
        res["functions"].append(f"{n}: {H[n][3]}")
        res["obligations"] += 1
        res["queries"] += 1
        res["solver_s"] += r.get("solver_s", 0.0)
        res["states"] += 1
        res["transitions"] += r.get("checks", 0)
        bad_cover = [c for c, st in r["covers"].items() if (c.startswith("MUST-NOT") and st not in ("UNREACHABLE", "UNSATISFIABLE")) or (not c.startswith("MUST-NOT") and st != "SATISFIED")]
        res["harnesses"][n] = {"status": r["status"], "secs": round(r["secs"], 1), "solver_s": r.get("solver_s"), "checks": r["checks"], "sat_size": r.get("sat_size"), "covers": r["covers"]}
        if r["status"] in ("success", "success-modulo-nan") and not bad_cover:
            res["discharged"] += 1
            res["nontrivial"] += 1
            if len(res["samples"]) < 4:
                res["samples"].append({"harness": n, "decides": H[n][3], "verdict": r["status"], "cbmc_checks": r["checks"], "sat_instance": r.get("sat_size"), "seconds": round(r["secs"], 1)})
        elif r["status"] in ("success", "success-modulo-nan") and bad_cover and not any(c.startswith("MUST-NOT") and r["covers"][c] == "SATISFIED" for c in bad_cover):
            res["tool_errors"].append(f"{n}: vacuity witness not as expected: {bad_cover} {r['covers']}")
        elif r["status"] == "failed" or (r["status"] in ("success", "success-modulo-nan") and bad_cover):
            # a MUST-NOT cover that the solver satisfies is a counterexample like a failed assertion (e.g. "returned normally
            # for a probability outside (0,1)")
            hit = [(c, "cover satisfied") for c in bad_cover if c.startswith("MUST-NOT") and r["covers"].get(c) == "SATISFIED"]
            failed = list(r.get("failed", [])) + hit
            rec = {"property": prop, "engine": "K", "harness": n, "decides": H[n][3], "failed_checks": [list(f) for f in failed[:8]],
                   "obligation": n, "detail": "; ".join(f"{d} @ {l}" for d, l in failed[:3]), "role": f"kani:{n}"}
            native = H[n][4]
            confirmed = None
            if native:
                import engine_r
                h = engine_r.Harness(tag=f"kreplay-{prop}")
                for (sc, cfg) in native:
                    for profile in ("dev", "release"):
                        d = h.run("f64", sc, cfg, profile=profile, timeout=20)
                        res["traces_validated"] += 1
                        bad = [("crash/hang", d.get("log", "")[-200:])] if d.get("crash") else [f for f in d["out"]["facts"] if not f[1]]
                        if not bad and not d.get("crash"):
                            bad = [b for b in engine_r.numeric_failures(d, [prop]) if b[2] != "fact"]
                        if bad:
                            confirmed = {"scenario": sc, "cfg": cfg, "profile": profile, "native_failure": [str(b)[:300] for b in bad[:3]]}
                            break
                    if confirmed:
                        break
            rec["native_replay"] = confirmed
            os.makedirs(evidence.REPLAY_DIR, exist_ok=True)
            path = os.path.join(evidence.REPLAY_DIR, f"{prop}-K-{n}.json")
            if native and confirmed is None:
                res["unconfirmed"].append({"harness": n, "detail": rec["detail"]})
            else:
                write_json(path, rec)
                rec["replay"] = path
                res["violations"].append(rec)
        else:
            res["undischarged"].append((n, r["status"], (r.get("tail") or "")[-200:].replace("\n", " ")))
    res["solver_s"] = round(res["solver_s"], 2)
    return res


# ---------------------------------------------------------------------------------------------
# supplementary native grids (not solver-based; they only add detection power and replayable inputs)
# ---------------------------------------------------------------------------------------------
def native_grid(prop, tier, seed):
    import engine_r
    part = {"engine": "N (supplementary native runs of the real build on f64 under a watchdog: not a solver verdict)", "functions": [], "obligations": 0, "discharged": 0,
            "undischarged": [], "violations": [], "unconfirmed": [], "queries": 0, "solver_s": 0.0, "states": 0, "transitions": 0, "samples": [], "nontrivial": 0,
            "tool_errors": [], "assumptions": ["supplementary enumeration of concrete inputs; the deciding checks of this property are the solver-based engines"], "traces_validated": 0}
    cases = []
    if prop == "C08":
        shapes = [(3, 1), (5, 2)] if tier == "quick" else [(2, 1), (3, 1), (4, 1), (5, 2), (7, 3)]
        for (n, p) in shapes:
            for val in ("nan", "inf", "ninf", "huge", "tiny", "zero"):
                for where in ("phi", "y", "w", "alpha"):
                    for (i, j) in ([(0, 0), (n - 1, p)] if where == "phi" else [((seed + 1) % n, 0)]):
                        cases.append(("nonfinite", dict(n=n, p=p, val=val, where=where, i=i, j=j, weights=1 if where == "w" or (i + j) % 2 else 0)))
                        if val in ("nan", "inf") and where in ("phi", "w"):
                            cases.append(("nonfinite", dict(n=n, p=p, val=val, where=where, i=i, j=j, weights=1, par=1)))
    if prop == "C08":
        cases.append(("shapes", dict(nmax=5 if tier == "quick" else 7, pmax=3 if tier == "quick" else 4)))
    if prop == "C09":
        # a model failure at EVERY call index of a complete build -> fit_with_statistics (the fault-free run is counted first),
        # transient and persistent, from several starting points (different optimizer trajectories: rejected trial steps,
        # termination right after one, different convergence criteria)
        shapes = [(6, 1, f) for f in range(0, 4)] + [(8, 2, 0), (8, 2, 1)]
        if tier == "thorough":
            shapes += [(8, 2, 2), (8, 2, 3), (7, 1, 4), (10, 3, 0), (10, 3, 1), (5, 1, 5)]
        for (n, p, far) in shapes:
            cases.append(("faultsweep", dict(n=n, p=p, far=far)))
    if prop == "C04":
        cases += [("fitmap", {}), ("fwsmap", {})]
    if prop == "C12":
        cases += [("fwsmap", {}), ("statsfit", {})]
    if prop == "C14":
        cases += [("bandpanic", {})]
    if prop in ("C01", "C02", "C03"):
        # homogeneity in the observations at extreme scales (2^-540 .. 2^500): intermediate squares leaving the float range
        cases += [("scalecore", dict(n=6, p=2))] + ([("scalecore", dict(n=9, p=3)), ("scalecore", dict(n=4, p=1))] if tier == "thorough" else [])
    if prop == "C18":
        for have_y in (0, 1):
            for x in range(0, 4):
                for rows in range(0, 4):
                    for cols in range(0, 3):
                        for (wdiag, wlen) in [(0, 0)] + [(1, k) for k in range(0, 4)]:
                            if tier == "quick" and (x + rows + cols + wlen + seed) % 3 != 0:
                                continue
                            cases.append(("buildcase", dict(have_y=have_y, x=x, rows=rows, cols=cols, wdiag=wdiag, wlen=wlen)))
    if not cases:
        return None
    h = engine_r.Harness(tag=f"grid-{prop}")
    h.build("release")
    seen_roles = set()
    for (sc, cfg) in cases:
        for profile in (("release", "dev") if tier == "thorough" else ("release",)):
            d = h.run("f64", sc, cfg, profile=profile, timeout=(120 if sc in ("faultsweep", "shapes") else 15))
            part["obligations"] += 1
            part["states"] += 1
            part["traces_validated"] += 1
            bad = [("crash-or-hang", d.get("log", "")[-300:])] if d.get("crash") else [f for f in d["out"]["facts"] if not f[1] and (sc != "scalecore" or str(f[0]).startswith(prop))]
            if not d.get("crash") and any(str(n).startswith("VERIF-UNSUPPORTED") for n in d["out"].get("notes", [])):
                part["tool_errors"].append(f"{sc}: {d['out']['notes'][0]}")
                continue
            if not d.get("crash"):
                import engine_r as er
                bad += [b for b in er.numeric_failures(d, ["C09", "C08"]) if b[2] != "fact"]
            if not bad:
                part["discharged"] += 1
                if len(part["samples"]) < 3:
                    part["samples"].append({"scenario": sc, "cfg": cfg, "facts": [f[0] for f in d["out"]["facts"]][:6]})
                continue
            role = f"native:{sc}:{str(bad[0][0])}:{cfg.get('where', '')}:{cfg.get('val', '')}:{cfg.get('persistent', '')}"
            if role in seen_roles:
                continue
            seen_roles.add(role)
            import evidence
            os.makedirs(evidence.REPLAY_DIR, exist_ok=True)
            path = os.path.join(evidence.REPLAY_DIR, f"{prop}-N-{len(part['violations'])}.json")
            rec = {"property": prop, "engine": "R", "scenario": sc, "cfg": cfg, "inputs": {}, "obligation": str(bad[0][0]), "detail": f"{sc} {cfg} [{profile}]: {str(bad[0])[:300]}", "role": role}
            write_json(path, rec)
            rec["replay"] = path
            part["violations"].append(rec)
    part["functions"].append(f"{len(cases)} native cases ({'/'.join(sorted({c[0] for c in cases}))})")
    part["nontrivial"] = part["discharged"]
    return part
