"""Engine M driver: dumps the nightly MIR of /repo's working tree, runs the MIR interpreter with summaries,
checks post-conditions with z3, validates paths / replays counterexamples natively."""
import os, re, sys, json
import z3
from common import *
sys.path.insert(0, os.path.join(VERIF, "engine_m"))
import mirse
from mirse import Obj, Unsupported, disc_fn, fresh_for_type, VARIANT_INDEX

TARGET_M = os.path.join(SCRATCH, "target-m")
BV = lambda v: z3.BitVecVal(v, 64)

# uninterpreted observers
UF = {}


def uf(name, *sorts):
    if name not in UF:
        UF[name] = z3.Function(name, *sorts)
    return UF[name]


def count_of(kind, model):
    return uf(kind, mirse.Val, z3.BitVecSort(64))(model.id)


def dump_mir(features=""):
    run_dir = new_run_dir("m")
    dst = os.path.join(run_dir, "repo")
    rc, out, _ = run(["rsync", "-a", "--exclude", "target", "--exclude", ".git", REPO + "/", dst + "/"])
    if rc != 0:
        raise ToolFailure("rsync failed")
    res = {}
    for oc in ("on", "off"):
        cmd = ["cargo", "+nightly", "rustc", "--offline", "--lib"] + (["--features", features] if features else []) + \
              ["--", "-Zunpretty=mir", "-C", "debug-assertions=off", "-C", f"overflow-checks={oc}"]
        env = cargo_env({"CARGO_TARGET_DIR": TARGET_M + ("-" + features if features else "") + "-" + oc})
        rc, out, dt = run(["bash", "-c", " ".join(cmd) + f" > {run_dir}/mir-{oc}.txt 2> {run_dir}/mir-{oc}.err"], cwd=dst, env=env, timeout=900)
        p = os.path.join(run_dir, f"mir-{oc}.txt")
        if rc != 0 or not os.path.exists(p) or os.path.getsize(p) < 1000:
            # cargo prints nothing when the crate is up to date: force a rebuild once
            run(["touch", os.path.join(dst, "src", "lib.rs")])
            rc, out, dt = run(["bash", "-c", " ".join(cmd) + f" > {run_dir}/mir-{oc}.txt 2> {run_dir}/mir-{oc}.err"], cwd=dst, env=env, timeout=900)
        if rc != 0 or os.path.getsize(p) < 1000:
            log(open(os.path.join(run_dir, f"mir-{oc}.err")).read()[-3000:])
            raise ToolFailure("MIR dump failed (does /repo build on the nightly toolchain?)")
        res[oc] = p
    return res


# ---------------------------------------------------------------------------------------------
# summaries
# ---------------------------------------------------------------------------------------------
def mk_enum(tag, variant, payload=None):
    ob = Obj("enum:" + tag, variant=variant)
    if payload is not None:
        ob.fields[(variant, 0)] = payload
    return ob


def known_variant(ob):
    if isinstance(ob, Obj) and ob.variant is not None:
        return ob.variant
    return None


def fork_variant(m, path, ob, names):
    """case split on an Option/Result-like object whose variant is unknown: returns [(path, variant)]"""
    kv = known_variant(ob)
    if kv is not None:
        return [(path, kv, ob)]
    outs = []
    conds = [(n, disc_fn(ob.id) == VARIANT_INDEX[n]) for n in names]
    feas = [(n, c) for n, c in conds if m.feasible(path.pc + [c])]
    for i, (n, c) in enumerate(feas):
        if i == len(feas) - 1:
            q, ob_q = path, ob
        else:
            # locate the copy of `ob` inside the clone through a marker
            ob.meta["__mark"] = True
            q = path.clone()
            ob_q = find_marked(q)
            del ob.meta["__mark"]
            if ob_q is not None:
                del ob_q.meta["__mark"]
            else:
                ob_q = ob   # `ob` is not reachable from the environment: sharing it is harmless
        q.pc = q.pc + [c]
        if ob_q.variant is None:
            ob_q.variant = n
        outs.append((q, n, ob_q))
    return outs


def find_marked(path):
    seen = set()

    def walk(v):
        if isinstance(v, Obj):
            if id(v) in seen:
                return None
            seen.add(id(v))
            if v.meta.get("__mark"):
                return v
            for f in v.fields.values():
                r = walk(f)
                if r is not None:
                    return r
        elif isinstance(v, tuple):
            for x in v:
                r = walk(x)
                if r is not None:
                    return r
        elif isinstance(v, list):
            for x in v:
                r = walk(x)
                if r is not None:
                    return r
        return None
    for fr in path.frames:
        for v in fr.values():
            r = walk(v)
            if r is not None:
                return r
    for ev in path.log:
        r = walk(ev)
        if r is not None:
            return r
    return None


def payload_of(ob, variant, ty="", tag="payload"):
    key = (variant, 0)
    if key not in ob.fields:
        ob.fields[key] = fresh_for_type(ty, tag)
    return ob.fields[key]


def s_try_branch(m, callee, args, path, fn, dst, depth):
    r = args[0]
    if not isinstance(r, Obj):
        raise Unsupported("Try::branch on scalar")
    is_opt = "<Option<" in callee or callee.lstrip().startswith("<Option")
    names = ("None", "Some") if is_opt else ("Ok", "Err")
    outs = []
    for (q, n, rq) in fork_variant(m, path, r, names):
        if n in ("Ok", "Some"):
            outs.append((q, mk_enum("ControlFlow", "Continue", payload_of(rq, n, "", "cont"))))
        else:
            resid = mk_enum("Residual", n, payload_of(rq, n, "", "err") if n == "Err" else None)
            outs.append((q, mk_enum("ControlFlow", "Break", resid)))
    return outs


def s_from_residual(m, callee, args, path, fn, dst, depth):
    resid = args[0]
    if known_variant(resid) == "None":
        return [(path, mk_enum("Option", "None"))]
    e = payload_of(resid, "Err", "", "err")
    # `?` converts the error with From::from: identity if the error types agree, otherwise a wrapper that keeps the source
    def result_args(text, start):
        i = text.index("Result<", start) + len("Result<")
        depth, j = 1, i
        while depth:
            ch = text[j]
            if ch == "<":
                depth += 1
            elif ch == ">" and text[j - 1] not in "-=":
                depth -= 1
            j += 1
        return mirse.split_top(text[i:j - 1], ","), j
    try:
        t_args, pos = result_args(callee, 0)
        r_args, _ = result_args(callee, pos)
        same = t_args[-1].strip() == r_args[-1].strip()
    except (ValueError, IndexError):
        same = False
    if same:
        return [(path, mk_enum("Result", "Err", e))]
    w = Obj("converted-error", variant="From")
    w.fields[("From", 0)] = e
    return [(path, mk_enum("Result", "Err", w))]


def s_ok_or(m, callee, args, path, fn, dst, depth):
    opt, err = args
    outs = []
    for (q, n, oq) in fork_variant(m, path, opt, ("None", "Some")):
        if n == "Some":
            outs.append((q, mk_enum("Result", "Ok", payload_of(oq, "Some", "", "some"))))
        else:
            outs.append((q, mk_enum("Result", "Err", err)))
    return outs


def s_unwrap_or_else(m, callee, args, path, fn, dst, depth):
    opt = args[0]
    outs = []
    for (q, n, oq) in fork_variant(m, path, opt, ("None", "Some")):
        if n == "Some":
            outs.append((q, payload_of(oq, "Some", "", "some")))
        else:
            d = Obj("default:" + re.sub(r".*\{|\}.*", "", callee)[-60:])
            d.meta["default_fn"] = callee[-120:]
            outs.append((q, d))
    return outs


def s_expect(m, callee, args, path, fn, dst, depth):
    """Option::expect / unwrap (and the Result versions): the absent / error case is a panic path"""
    opt = args[0]
    outs = []
    names = ("None", "Some") if callee.startswith("Option") else ("Err", "Ok")
    for (q, n, oq) in fork_variant(m, path, opt, names):
        if n in ("Some", "Ok"):
            outs.append((q, payload_of(oq, n, "", n.lower())))
        else:
            q.panic = f"{callee.split('::<')[0]}::{'expect' if 'expect' in callee else 'unwrap'} on {n}"
            q.log.append(("panic", q.panic, fn.name[-60:]))
            m.panics.append(q)
    return outs


def s_model_count(kind):
    def h(m, callee, args, path, fn, dst, depth):
        v = count_of(kind, args[0])
        return [(path, v)]
    return h


def s_model_fallible(kind):
    """eval / eval_partial_deriv / set_params of the model trait: Ok(fresh) or Err(fresh), by contract"""
    def h(m, callee, args, path, fn, dst, depth):
        outs = []
        site = f"{kind}#{sum(1 for e in path.log if e[0] == 'model' and e[1] == kind)}"
        for ok in (True, False):
            q = path if not ok else path.clone()
            # the model object inside q
            q.log.append(("model", kind, site, ok))
            val = mk_enum("Result", "Ok" if ok else "Err", Obj(f"{kind}-value" if ok else "model-error"))
            outs.append((q, val))
        return outs
    return h


def s_fork_option(tag):
    def h(m, callee, args, path, fn, dst, depth):
        outs = []
        for some in (True, False):
            q = path if not some else path.clone()
            q.log.append(("env", tag, some))
            outs.append((q, mk_enum("Option", "Some" if some else "None", Obj(tag + "-value") if some else None)))
        return outs
    return h


def s_fork_result(tag):
    def h(m, callee, args, path, fn, dst, depth):
        outs = []
        for ok in (True, False):
            q = path if not ok else path.clone()
            q.log.append(("env", tag, ok))
            outs.append((q, mk_enum("Result", "Ok" if ok else "Err", Obj(tag + ("-value" if ok else "-error")))))
        return outs
    return h


def s_uf_usize(name):
    def h(m, callee, args, path, fn, dst, depth):
        return [(path, uf(name, mirse.Val, z3.BitVecSort(64))(args[0].id))]
    return h


def s_is_empty(m, callee, args, path, fn, dst, depth):
    r, c = uf("nrows", mirse.Val, z3.BitVecSort(64))(args[0].id), uf("ncols", mirse.Val, z3.BitVecSort(64))(args[0].id)
    return [(path, r * c == BV(0))]


def s_matrix_len(m, callee, args, path, fn, dst, depth):
    r, c = uf("nrows", mirse.Val, z3.BitVecSort(64))(args[0].id), uf("ncols", mirse.Val, z3.BitVecSort(64))(args[0].id)
    return [(path, r * c)]


def s_pure(tag):
    """uninterpreted pure function: result object remembers its arguments"""
    def h(m, callee, args, path, fn, dst, depth):
        ob = Obj(tag)
        ob.meta["fn"] = tag
        ob.meta["args"] = list(args)
        path.log.append(("pure", tag))
        return [(path, ob)]
    return h


def s_interpret(pattern):
    def h(m, callee, args, path, fn, dst, depth):
        f = m.find(pattern)
        return m.run_fn(f, args, path, depth + 1)
    return h


def s_record_call(tag, ret_type=""):
    def h(m, callee, args, path, fn, dst, depth):
        path.log.append(("call", tag, list(args)))
        return [(path, fresh_for_type(ret_type or fn.types.get(dst.strip(), ""), tag))]
    return h


def s_clone(m, callee, args, path, fn, dst, depth):
    return [(path, args[0])]


COMMON = [
    (r" as Try>::branch$", s_try_branch),
    (r"as FromResidual<.*>>::from_residual$", s_from_residual),
    (r"^Option::<.*>::ok_or::<", s_ok_or),
    (r"^Option::<.*>::unwrap_or_else::<", s_unwrap_or_else),
    (r"^(Option|Result)::<.*>::(expect|unwrap)$", s_expect),
    (r"SeparableNonlinearModel>::output_len$", s_model_count("output_len")),
    (r"SeparableNonlinearModel>::parameter_count$", s_model_count("parameter_count")),
    (r"SeparableNonlinearModel>::base_function_count$", s_model_count("base_function_count")),
    (r"SeparableNonlinearModel>::eval$", s_model_fallible("eval")),
    (r"SeparableNonlinearModel>::eval_partial_deriv$", s_model_fallible("eval_partial_deriv")),
    (r"SeparableNonlinearModel>::set_params$", s_model_fallible("set_params")),
    (r"SeparableNonlinearModel>::params$", s_pure("model.params")),
    (r" as Clone>::clone$", s_clone),
    (r"Matrix::<.*>::nrows$", s_uf_usize("nrows")),
    (r"Matrix::<.*>::ncols$", s_uf_usize("ncols")),
    (r"impl Matrix<.*>>::is_empty$", s_is_empty),
    (r"impl Matrix<.*>>::len$", s_matrix_len),
    (r"Matrix::<.*>::len$", s_matrix_len),
]


def warm():
    """setup: dump the MIR once so that the nightly build caches are warm"""
    d = dump_mir()
    print("engine M warm-up: MIR dumped,", sum(1 for _ in open(d["on"])), "lines")
    try:
        dump_mir(features="parallel")
    except ToolFailure as e:
        print("engine M warm-up (parallel):", e)
