"""Engine K driver: Kani proof harnesses compiled inside an overlay copy of the crate."""
import fcntl, json, os, re, shutil, sys
from common import *

HARNESS_DIR = os.path.join(VERIF, "engine_k", "harness")
K_MODULES = ["util", "basis_function", "model", "model_builder", "levmar", "statistics"]
NSLOTS = 6


class Slot:
    """A persistent overlay + target directory (kept warm between runs), protected by a file lock."""

    def __init__(self):
        os.makedirs(SCRATCH, exist_ok=True)
        self.idx = None
        self.lockf = None
        import time
        while self.idx is None:
            for i in range(NSLOTS):
                f = open(os.path.join(SCRATCH, f"kslot-{i}.lock"), "w")
                try:
                    fcntl.flock(f, fcntl.LOCK_EX | fcntl.LOCK_NB)
                    self.idx, self.lockf = i, f
                    break
                except OSError:
                    f.close()
            if self.idx is None:
                time.sleep(2)
        self.dir = os.path.join(SCRATCH, f"kslot-{self.idx}")
        os.makedirs(self.dir, exist_ok=True)
        self.target = os.path.join(self.dir, "target")

    def prepare(self):
        ensure_nalgebra()
        self.overlay = make_overlay(self.dir, [m for m in K_MODULES if os.path.exists(os.path.join(HARNESS_DIR, m + ".rs"))], "kani", HARNESS_DIR)
        ct = os.path.join(self.overlay, "Cargo.toml")
        txt = open(ct).read()
        txt += f"\n[patch.crates-io]\nnalgebra = {{ path = \"{NALGEBRA_PATCHED}\" }}\n\n[lints.rust]\nunexpected_cfgs = {{ level = \"allow\" }}\n"
        open(ct, "w").write(txt)
        os.makedirs(os.path.join(self.overlay, ".cargo"), exist_ok=True)
        open(os.path.join(self.overlay, ".cargo", "config.toml"), "w").write("[net]\noffline = true\n")

    def release(self):
        try:
            fcntl.flock(self.lockf, fcntl.LOCK_UN)
            self.lockf.close()
        except Exception:
            pass


CHECK_RE = re.compile(r"Check (\d+): (\S+)\n\s+- Status: (\w+)\n\s+- Description: \"(.*?)\"\n(?:\s+- Location: (.*?)\n)?", re.S)

# Kani adds IEEE "NaN on <op>" checks to every float operation; producing NaN is not a Rust panic.
IGNORED = re.compile(r"^NaN on |arithmetic overflow on floating-point")


# Failed checks of these kinds come from CBMC's memory model / Kani's unsupported-feature stubs (nalgebra works on
# uninitialised buffers); they are not Rust panics.  A run that contains one is UNDETERMINED as a whole: its
# other failed assertions may be consequences of the same modelling gap.  Unwinding assertions mean the bound
# was too small: undetermined as well.
UNRELIABLE = re.compile(r"dereference failure|does not support|unsupported|pointer NULL|pointer invalid|pointer outside|deallocated dynamic object|dead object|invalid integer address|unwinding assertion|recursion unwinding|same_allocation|misaligned", re.I)


def parse_kani(out):
    """returns dict(status, failed=[(desc, loc)], undetermined=[...], covers={desc: SATISFIED|...}, checks=n)"""
    failed, undet, covers = [], [], {}
    n = 0
    for m in CHECK_RE.finditer(out):
        n += 1
        _id, name, status, desc, loc = m.groups()
        if ".cover." in name or name.startswith("cover"):
            covers[desc] = status
            continue
        if status == "FAILURE":
            if IGNORED.search(desc):
                continue
            failed.append((desc, loc or ""))
        elif status == "UNDETERMINED":
            if IGNORED.search(desc):
                continue
            undet.append((desc, loc or ""))
    unreliable = [f for f in failed if UNRELIABLE.search(f[0])]
    if unreliable and "VERIFICATION:- SUCCESSFUL" not in out:
        undet = undet + failed
        failed = []
    if "VERIFICATION:- SUCCESSFUL" in out:
        status = "success"
    elif "VERIFICATION:- FAILED" in out:
        status = "failed" if failed else ("undetermined" if undet else "success-modulo-nan")
        if not failed and not undet and n == 0:
            status = "error"
    else:
        status = "error"
    if re.search(r"Status: ERROR|out of memory|SIGKILL|Killed|CBMC failed|exited with status", out) and status != "failed":
        status = "error"
    return {"status": status, "failed": failed, "undetermined": undet, "covers": covers, "checks": n}


def run_harness(slot_overlay, target, name, timeout_s, extra_args=()):
    env = cargo_env()
    env.pop("RUSTFLAGS", None)
    cmd = ["bash", "-c", f"ulimit -v {20 * 1024 * 1024}; exec cargo kani --harness {name} -Z stubbing --target-dir {target} " + " ".join(extra_args)]
    rc, out, dt = run(cmd, cwd=slot_overlay, env=env, timeout=timeout_s)
    r = parse_kani(out)
    r["secs"] = dt
    r["rc"] = rc
    if rc == 124:
        r["status"] = "timeout"
    r["tail"] = out[-1500:]
    m = re.search(r"Runtime decision procedure: ([\d.]+)s", out)
    r["solver_s"] = float(m.group(1)) if m else 0.0
    m = re.search(r"(\d+) variables, (\d+) clauses", out)
    r["sat_size"] = [int(m.group(1)), int(m.group(2))] if m else None
    r["raw"] = out
    return r


def run_harnesses(names, timeout_s, parallel=4, extra_args=()):
    """Each harness in its own slot (own target dir), up to `parallel` at a time."""
    from concurrent.futures import ThreadPoolExecutor
    results = {}

    def one(name):
        slot = Slot()
        try:
            slot.prepare()
            return name, run_harness(slot.overlay, slot.target, name, timeout_s, extra_args=extra_args)
        finally:
            slot.release()
    with ThreadPoolExecutor(max_workers=min(parallel, NSLOTS)) as ex:
        for name, r in ex.map(one, names):
            results[name] = r
    return results


def warm():
    """setup: compile the dependencies once in every slot (so that checks only recompile varpro)"""
    names = ["k_to_vector_u32"] * 1
    slot = Slot()
    try:
        slot.prepare()
        r = run_harness(slot.overlay, slot.target, "k_to_vector_u32", 1500)
        print("engine K warm-up:", r["status"], f"{r['secs']:.0f}s")
        r = run_harness(slot.overlay, slot.target, "k_to_vector_u32", 1500, extra_args=("--features", "parallel"))
        print("engine K warm-up (--features parallel):", r["status"], f"{r['secs']:.0f}s")
        # replicate the warmed target directory into the other slots
        for i in range(NSLOTS):
            d = os.path.join(SCRATCH, f"kslot-{i}")
            if i != slot.idx and not os.path.exists(os.path.join(d, "target")):
                os.makedirs(d, exist_ok=True)
                run(["cp", "-a", slot.target, os.path.join(d, "target")])
    finally:
        slot.release()
