"""Which engines decide which property."""
import os
from common import *


def run_property(prop, tier, seed):
    parts = []
    import props_r
    if prop in props_r.R_PROPS:
        import run_r
        parts.append(run_r.run(prop, tier, seed))
    if not parts:
        raise ToolFailure(f"no check registered for {prop}")
    return parts
