"""Which engines decide which property."""
import os
from common import *


def run_property(prop, tier, seed):
    parts = []
    import props_r, run_k
    use = os.environ.get("VERIF_ENGINES", "RKMN")
    if prop in props_r.R_PROPS and "R" in use:
        import run_r
        parts.append(run_r.run(prop, tier, seed))
    if prop in run_k.K_PROPS and "K" in use:
        parts.append(run_k.run(prop, tier, seed))
    if "N" in os.environ.get("VERIF_ENGINES", "RKMN"):
        g = run_k.native_grid(prop, tier, seed)
        if g:
            parts.append(g)
    try:
        import run_m
        if prop in run_m.M_PROPS and "M" in use:
            parts.append(run_m.run(prop, tier, seed))
    except ImportError:
        pass
    if not parts:
        raise ToolFailure(f"no check registered for {prop}")
    return parts
