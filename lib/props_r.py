"""Which Engine-R scenarios/configurations serve which property, per tier."""


def seeds(seed):
    # frame seeds (exact rational orthogonal matrices); 0 = identity, 1 = signed cyclic permutation
    base = 2 + (seed % 5)
    return base, base + 3


def core_cfgs(tier, seed, want):
    """`want` is a set of feature tags; returns list of (scenario, cfg)."""
    u, v = seeds(seed)
    C = []

    def add(**kw):
        d = {"useed": u, "vseed": v}
        d.update(kw)
        C.append(("core", d))
    # planted tier
    if "basic" in want:
        add(n=3, m=2, s=1, p=1, w="diag", eps="sym")
        add(n=3, m=2, s=2, p=2, w="diag", eps="default", mrhs=1)
        add(n=2, m=2, s=1, p=1, w="none", eps="sym", useed=1, vseed=u)
        add(n=3, m=2, s=1, p=2, w="diag", eps="neg", useed=0, vseed=1)
        add(n=3, m=2, s=1, p=1, w="diag", eps="zero")
        # wide data: more right-hand sides than observations (S > N), weighted and unweighted (round 8, C01-h)
        add(n=2, m=2, s=3, p=1, w="diag", eps="sym", mrhs=1)
        add(n=2, m=1, s=3, p=1, w="none", real_svd=1, mrhs=1, par=1)
    if "basic" in want:
        # rationally parametrised frames: ALL rotations U (Euler-Rodrigues) and V ((1-k^2, 2k)/(1+k^2)), symbolic parameters
        add(n=3, m=2, s=1, p=1, w="diag", eps="sym", useed=9999, vseed=10000)
        if tier == "thorough":
            add(n=2, m=2, s=2, p=2, w="diag", eps="sym", useed=9999, vseed=10000, mrhs=1)
            add(n=3, m=2, s=2, p=2, w="none", eps="default", useed=9999, vseed=10000, mrhs=1, par=1)
            add(n=3, m=2, s=1, p=1, w="diag", hist=1, useed=9999, vseed=10000, maxpaths=32)
    if "realsvd" in want:
        add(n=2, m=1, s=1, p=1, w="diag", real_svd=1, eps="sym")
        add(n=2, m=1, s=2, p=1, w="none", real_svd=1, mrhs=1)
        if tier == "thorough":
            add(n=3, m=1, s=2, p=1, w="none", real_svd=1, mrhs=1)
    if "zero_w" in want:
        add(n=3, m=1, s=1, p=1, w="diag", real_svd=1, zero_w=1)
        add(n=4, m=2, s=1, p=1, w="diag", zero_w=2, eps="sym")
    if "hist" in want:
        add(n=3, m=2, s=1, p=2, w="diag", hist=4, maxpaths=24)
        add(n=3, m=2, s=1, p=1, w="diag", hist=1)
        add(n=3, m=2, s=2, p=1, w="none", hist=1, mrhs=1)
        # structure that is present at the first parameters only (an identically vanishing derivative column)
        add(n=3, m=2, s=1, p=1, w="diag", hist=1, zero_d=0, maxpaths=16)
        add(n=3, m=2, s=2, p=2, w="none", hist=4, zero_d=1, mrhs=1, maxpaths=16)
        add(n=3, m=2, s=1, p=2, w="diag", hist=1, zero_d=1, par=1, maxpaths=16)
    if "faults" in want:
        add(n=3, m=2, s=1, p=1, w="diag", hist=2)
        add(n=3, m=2, s=1, p=1, w="none", hist=3)
        add(n=3, m=2, s=2, p=2, w="diag", hist=2, mrhs=1, par=1)
        add(n=3, m=2, s=1, p=2, w="diag", deriv_fail=1)
        add(n=3, m=2, s=2, p=2, w="none", deriv_fail=0, mrhs=1, par=1)
    if "par" in want:
        add(n=3, m=2, s=1, p=2, w="diag", par=1, threads=4)
        add(n=3, m=2, s=2, p=2, w="diag", par=1, mrhs=1, threads=2, hist=1)
    if "order" in want:
        add(n=3, m=2, s=1, p=1, w="diag", eps="sym", order=1)
        add(n=3, m=2, s=2, p=1, w="diag", eps="neg", order=2, mrhs=1)
        add(n=3, m=2, s=1, p=1, w="diag", eps="sym", order=3, par=1)
        add(n=3, m=2, s=2, p=1, w="none", eps="zero", order=1, mrhs=1)
    if tier == "thorough":
        extra = []
        for (sc, d) in list(C):
            # a second frame pair and larger shapes
            d2 = dict(d)
            if d["useed"] >= 9999:
                continue
            d2["useed"], d2["vseed"] = d["vseed"] + 4, d["useed"] + 6
            extra.append((sc, d2))
        C += extra
        if "basic" in want:
            add(n=4, m=2, s=2, p=2, w="diag", eps="sym", mrhs=1)
            add(n=4, m=3, s=1, p=2, w="diag", eps="default")
            add(n=3, m=3, s=1, p=1, w="diag", eps="sym")
            add(n=2, m=3, s=1, p=1, w="none", eps="sym")
            add(n=4, m=2, s=3, p=1, w="none", mrhs=1, par=1)
        if "hist" in want:
            add(n=4, m=2, s=1, p=2, w="diag", hist=1, par=1)
            add(n=3, m=2, s=1, p=1, w="diag", hist=3, eps="sym")
    return C


R_PROPS = {
    "C01": dict(prefixes=["C01"], want={"basic", "realsvd", "hist", "par", "zero_w"}, extra=[]),
    "C02": dict(prefixes=["C02"], want={"basic", "realsvd", "hist", "par", "order"}),
    "C03": dict(prefixes=["C03"], want={"basic", "realsvd", "hist", "par", "faults", "zero_w"}),
    "C10": dict(prefixes=["C10"], want={"hist", "faults", "par"}, twins=[("core", dict(n=3, m=2, s=1, p=1, w="diag", hist=1, twin=1, useed=2, vseed=5))], twin_prefixes=["C10.fresh"]),
}


def configs_for(prop, tier, seed):
    spec = R_PROPS[prop]
    C = core_cfgs(tier, seed, spec.get("want", set())) if spec.get("want") else []
    for name in spec.get("extra", []):
        C += EXTRA[name](tier, seed)
    return C


def twin_configs(prop):
    """deliberately wrong specifications (cfg twin=1) that the solver must refute"""
    spec = R_PROPS[prop]
    return spec.get("twins", [("core", dict(n=3, m=2, s=1, p=1, w="diag", eps="sym", twin=1, useed=2, vseed=5))])


EXTRA = {}


# =============================================================================================
# further scenario tables
# =============================================================================================
def relw_cfgs(tier, seed):
    u, v = seeds(seed)
    C = [("relw", dict(n=3, m=2, s=1, p=1, w="diag", kind="scale", useed=u, vseed=v, eps="sym")),
         ("relw", dict(n=3, m=2, s=2, p=2, w="diag", kind="scale", mrhs=1, useed=u, vseed=v)),
         ("relw", dict(n=3, m=2, s=1, p=1, kind="unit", useed=u, vseed=v)),
         ("relw", dict(n=3, m=2, s=2, p=1, kind="unit", mrhs=1, par=1, useed=1, vseed=u)),
         ("relw", dict(n=3, s=1, p=1, w="diag", kind="zero", zero_w=1)),
         ("relw", dict(n=4, m=2, s=2, p=1, w="diag", kind="zero", zero_w=2, mrhs=1, useed=u, vseed=v)),
         ("relw", dict(n=2, m=2, s=3, p=1, w="diag", kind="scale", mrhs=1, useed=u, vseed=v)),
         ("relw_stats", dict(n=4, m=2, p=1, w="diag")),
         ("relw_stats", dict(n=4, m=1, p=2, w="diag"))]
    if tier == "thorough":
        C += [("relw", dict(n=4, m=2, s=2, p=2, w="diag", kind="scale", mrhs=1, par=1, useed=v, vseed=u + 1)),
              ("relw", dict(n=4, m=3, s=1, p=1, w="diag", kind="scale", useed=u, vseed=v)),
              ("relw", dict(n=3, s=2, p=1, w="diag", kind="zero", zero_w=0, mrhs=1)),
              ("relw", dict(n=2, m=2, s=1, p=1, w="diag", kind="scale", useed=v, vseed=u, eps="neg")),
              ("relw_stats", dict(n=5, m=2, p=2, w="diag"))]
    return C


def relmrhs_cfgs(tier, seed):
    u, v = seeds(seed)
    C = [("relmrhs", dict(n=3, m=2, s=2, p=1, w="diag", kind="columns", useed=u, vseed=v)),
         ("relmrhs", dict(n=3, m=2, s=3, p=2, w="none", kind="columns", useed=u, vseed=v, par=1)),
         ("relmrhs", dict(n=3, m=2, s=1, p=1, w="diag", kind="one", useed=u, vseed=v, eps="sym")),
         ("relmrhs", dict(n=3, m=2, s=3, p=1, w="diag", kind="perm", useed=u, vseed=v)),
         ("relmrhs", dict(n=3, m=2, s=2, p=1, w="diag", kind="dup", useed=u, vseed=v)),
         ("relmrhs", dict(n=2, m=1, s=2, p=1, w="diag", kind="columns", real_svd=1)),
         ("relmrhs", dict(n=2, m=2, s=3, p=1, w="diag", kind="columns", useed=u, vseed=v))]
    if tier == "thorough":
        C += [("relmrhs", dict(n=4, m=2, s=3, p=2, w="diag", kind="columns", useed=v, vseed=u)),
              ("relmrhs", dict(n=4, m=3, s=2, p=1, w="diag", kind="perm", useed=u, vseed=v, par=1)),
              ("relmrhs", dict(n=3, m=3, s=2, p=1, w="none", kind="columns", useed=u, vseed=v, eps="sym")),
              ("relmrhs", dict(n=3, m=1, s=2, p=1, w="none", kind="perm", real_svd=1))]
    return C


def lin_cfgs(tier, seed):
    u, v = seeds(seed)
    C = [("lin", dict(n=3, m=2, s=1, p=1, w="diag", useed=u, vseed=v, eps="sym")),
         ("lin", dict(n=3, m=2, s=2, p=1, w="none", mrhs=1, useed=u, vseed=v))]
    if tier == "thorough":
        C += [("lin", dict(n=4, m=3, s=1, p=1, w="diag", useed=v, vseed=u, par=1)),
              ("lin", dict(n=2, m=1, s=1, p=1, w="diag", real_svd=1))]
    return C


def stats_cfgs(tier, seed, parts):
    C = _stats_cfgs(tier, seed, parts)
    for (_sc, d) in C:
        d.setdefault("maxpaths", 10 if tier == "quick" else 40)
    return C


def _stats_cfgs(tier, seed, parts):
    C = []
    if "ident" in parts:
        C += [("stats", dict(n=4, m=2, p=1, w="diag")), ("stats", dict(n=4, m=1, p=2, w="none")), ("stats", dict(n=3, m=1, p=1, w="diag")),
              ("stats", dict(n=5, m=2, p=2, w="diag", sparse=1, corr=0))]
        if tier == "thorough":
            C += [("stats", dict(n=5, m=2, p=2, w="diag")), ("stats", dict(n=5, m=3, p=1, w="none")), ("stats", dict(n=6, m=2, p=1, w="diag"))]
    if "guard" in parts:
        # under-determined and exactly determined shapes, model failures
        for (n, m, p) in [(1, 1, 1), (2, 1, 1), (2, 2, 1), (3, 2, 1), (3, 1, 2), (1, 2, 2), (4, 2, 2)]:
            C.append(("stats", dict(n=n, m=m, p=p, w="diag" if (n + m) % 2 else "none")))
        C += [("stats", dict(n=4, m=2, p=1, w="diag", fail="eval")), ("stats", dict(n=4, m=2, p=2, w="none", fail="deriv", fail_k=1)),
              ("stats", dict(n=2, m=2, p=1, w="diag", fail="deriv", fail_k=0))]
    return C


# ---------------------------------------------------------------------------------------------
# routing programs (C16 / C17) and builder call sequences (C15)
# ---------------------------------------------------------------------------------------------
import itertools

NAMES = ["a", "b", "c", "d", "e", "f", "g", "h", "i", "j"]


def _prog(names, items, x_first=False, init_pos="end"):
    parts = ["P:" + ",".join(names)]
    if x_first:
        parts.append("X")
    if init_pos == "start":
        parts.append("XP")
    parts += items
    if not x_first:
        parts.append("X")
    if init_pos == "end":
        parts.append("XP")
    return ";".join(parts)


def _func(params, dorder=None, arity=None, flen=None):
    dorder = list(params) if dorder is None else dorder
    head = "F" + (f"@{arity}" if arity is not None else "") + (f"~{flen}" if flen else "")
    return head + ":" + ",".join(params) + ":" + ",".join(dorder)


def routing_programs(tier, seed):
    """valid programs: every ordered non-empty subset (arity <= 3) of the model parameters as a function's
    parameter list, every order of supplying its derivatives, the remaining parameters covered by filler
    functions, an invariant function at a rotating position; arities 4..10 by one rotation each."""
    progs = []
    maxl = 3 if tier == "quick" else 4
    k = seed
    for L in range(1, maxl + 1):
        names = NAMES[:L]
        # also a model parameter order different from alphabetical (routing is by name, not by position)
        for model_order in ([names] if L == 1 else [names, names[::-1]]):
            for r in range(1, min(3, L) + 1):
                for sub in itertools.permutations(names, r):
                    orders = list(itertools.permutations(sub))
                    if tier == "quick" and len(orders) > 2:
                        orders = [orders[(k + i * 3) % len(orders)] for i in range(2)]
                    for dorder in orders:
                        k += 1
                        items = [_func(list(sub), list(dorder))]
                        rest = [n for n in names if n not in sub]
                        # shared parameter: a second function over a parameter of `sub` and the rest
                        if rest:
                            items.append(_func([rest[0], sub[0]], [sub[0], rest[0]]))
                            for n in rest[1:]:
                                items.append(_func([n]))
                        pos = k % (len(items) + 1)
                        items.insert(pos, "I")
                        progs.append(_prog(list(model_order), items, x_first=(k % 2 == 0), init_pos=("start" if k % 3 == 0 else "end")))
    import random
    rng = random.Random(1000 + seed)
    for ar in range(4, 11):
        names = NAMES[:ar]
        rot = (seed + ar) % ar
        variants = []
        variants.append(names[rot:] + names[:rot])                       # rotation
        variants.append(names[::-1])                                     # reversal
        inner = names[1:-1]
        variants.append([names[0]] + inner[::-1] + [names[-1]])          # endpoints fixed, inner reversed
        variants.append([names[0]] + inner[1:] + inner[:1] + [names[-1]])  # endpoints fixed, inner rotated
        variants.append(names[:2][::-1] + names[2:])                     # first two swapped
        variants.append(names[:-2] + names[-2:][::-1])                   # last two swapped
        nrand = 2 if tier == "quick" else 6
        for _ in range(nrand):
            v = names[:]
            rng.shuffle(v)
            variants.append(v)
        if tier == "quick" and ar >= 7:
            variants = variants[:3] + variants[-1:]
        for sub in variants:
            dorder = sub[:]
            rng.shuffle(dorder)
            progs.append(_prog(names, [_func(sub, dorder), "I"]))
        # a function over a strict subset (with gaps) of a larger model parameter list
        if ar <= 9:
            big = NAMES[:ar + 1]
            sub = [big[0]] + [big[-1]] + big[2:-1]            # skips big[1]; endpoints of the model list not at the ends
            progs.append(_prog(big, [_func(sub, sub[::-1]), _func([big[1]])], x_first=True))
            sub = [big[0]] + big[2:]                          # ascending with a gap
            progs.append(_prog(big[::-1], [_func([big[1], big[0]], [big[0], big[1]]), _func(sub, sub)]))
        if tier == "thorough":
            sub2 = names[::2] + names[1::2]
            progs.append(_prog(names[::-1], ["I", _func(sub2, sub2[::-1])]))
    return [("routing", dict(prog=p, expect_ok=1)) for p in progs]


def misuse_programs(tier, seed):
    """C17: wrong output lengths at every function / derivative position"""
    progs = []
    for flen in ("-1", "+1", "0", "1", "x2"):
        progs.append(_prog(["a", "b"], [_func(["a"], flen=flen), _func(["b", "a"])]))
        progs.append(_prog(["a", "b"], [_func(["a"]), "I~" + flen, _func(["b"])]))
        progs.append(_prog(["a", "b"], [_func(["b", "a"], ["a~" + flen, "b"]), "I"]))
        progs.append(_prog(["a", "b", "c"], [_func(["a"]), _func(["c", "b"], ["b", "c~" + flen])]))
    return [("routing", dict(prog=p, expect_ok=1, n=(3, 2, 4)[i % 3])) for i, p in enumerate(progs)]


def reference_verdict(prog):
    """Reference predicate for C15, written from the property statement (not from the code): returns
    (valid, set of error kinds that name a defect present in the call sequence)."""
    items = [i.strip() for i in prog.split(";") if i.strip()]
    kinds = set()
    names = []
    funcs = 0
    used = set()
    have_x = have_init = False
    prev_is_function = False

    def lst(s):
        return [x.replace("%2C", ",") for x in s.split(",")] if s else []
    for it in items:
        parts = it.split(":")
        head = parts[0]
        base = head.split("@")[0].split("~")[0]
        ar = None
        if "@" in head:
            ar = int(head.split("@")[1].split("~")[0])
        if base == "P":
            names = lst(parts[1] if len(parts) > 1 else "")
            if not names:
                kinds.add("EmptyParameters")
            if len(set(names)) != len(names):
                kinds.add("DuplicateParameterNames")
            if any("," in n for n in names):
                kinds.add("CommaInParameterNameNotAllowed")
            prev_is_function = False
        elif base == "F":
            funcs += 1
            fp = lst(parts[1] if len(parts) > 1 else "")
            arity = ar if ar is not None else len(fp)
            ds = lst(parts[2] if len(parts) > 2 else "")
            ok_fn = True
            if not fp:
                kinds.add("EmptyParameters")
                ok_fn = False
            if len(set(fp)) != len(fp):
                kinds.add("DuplicateParameterNames")
                ok_fn = False
            if any("," in n for n in fp):
                kinds.add("CommaInParameterNameNotAllowed")
                ok_fn = False
            if any(n not in names for n in fp):
                kinds.add("FunctionParameterNotInModel")
                ok_fn = False
            if arity != len(fp):
                kinds.add("IncorrectParameterCount")
                ok_fn = False
            seen = []
            for d in ds:
                dn = d.split("@")[0].split("~")[0]
                da = int(d.split("@")[1].split("~")[0]) if "@" in d else arity
                if dn not in fp or dn not in names:
                    kinds.add("InvalidDerivative")
                elif dn in seen:
                    kinds.add("DuplicateDerivative")
                if da != len(fp):
                    kinds.add("IncorrectParameterCount")
                seen.append(dn)
            if any(n not in seen for n in fp):
                kinds.add("MissingDerivative")
            used.update(n for n in fp if n in names)
            prev_is_function = True
            continue
        elif base == "I":
            funcs += 1
            prev_is_function = False
        elif base == "D":
            if not prev_is_function:
                kinds.add("IllegalCallToPartialDeriv")
            continue
        elif base == "X":
            have_x = True
            prev_is_function = False
        elif base == "XP":
            have_init = True
            n = int(parts[1]) if len(parts) > 1 else len(names)
            if n != len(names):
                kinds.add("IncorrectParameterCount")
            prev_is_function = False
    if funcs == 0:
        kinds.add("EmptyModel")
    if any(n not in used for n in names):
        kinds.add("UnusedParameter")
    if not have_x:
        kinds.add("MissingX")
    if not have_init:
        kinds.add("MissingInitialParameters")
    return (not kinds, kinds)


def systematic_sequences(tier, seed):
    """every sequence of 1..3 functions over ordered subsets (size 1..2) of 2..3 model parameters, with complete
    derivative lists: valid iff every model parameter is used (reference predicate); plus single-defect mutants."""
    import random
    rng = random.Random(77 + seed)
    out = []
    for L in (2, 3):
        names = NAMES[:L]
        choices = [list(c) for r in (1, 2) for c in itertools.permutations(names, r)]
        seqs = [[c] for c in choices] + [[a, b] for a in choices for b in choices]
        triples = [[a, b, c] for a in choices for b in choices for c in choices]
        if tier == "quick":
            seqs = [q for q in seqs if rng.random() < (1.0 if L == 2 else 0.5)]
            triples = rng.sample(triples, min(len(triples), 90 if L == 3 else 40))
        seqs += triples
        for fl in seqs:
            items = [_func(f, f[::-1] if (len(f) + len(fl)) % 2 else f) for f in fl]
            if rng.random() < 0.3:
                items.insert(rng.randrange(len(items) + 1), "I")
            prog = _prog(names, items, x_first=rng.random() < 0.5, init_pos=rng.choice(["start", "end"]))
            out.append(prog)
            # x / initial guess placed directly after a function (the call has to finalise the pending function first):
            # correct length (valid iff the rest is valid) and wrong length (always a defect, also when a correct one follows)
            if rng.random() < (0.25 if tier == "quick" else 0.6):
                pos = rng.randrange(len(items)) + 1
                k = rng.choice([len(names) + 1, len(names) - 1, 0, len(names) + 2])
                parts = ["P:" + ",".join(names)] + items[:pos] + [rng.choice([f"XP:{k}", "XP", "X"])] + items[pos:] + ["X", "XP"]
                out.append(";".join(parts))
                parts = ["P:" + ",".join(names)] + items[:pos] + [f"XP:{k}"] + items[pos:] + ["X"]
                out.append(";".join(parts))
            # single-defect mutants of a sample
            if rng.random() < (0.15 if tier == "quick" else 0.4):
                f = rng.choice(fl)
                mut = rng.choice(["drop", "dup", "foreign", "arity"])
                if mut == "drop":
                    bad = _func(f, f[1:])
                elif mut == "dup":
                    bad = _func(f, f + [f[0]])
                elif mut == "foreign":
                    other = [n for n in names if n not in f]
                    bad = _func(f, f + [other[0]]) if other else _func(f, f + ["zz"])
                else:
                    bad = _func(f, arity=len(f) + 1)
                items2 = list(items)
                items2[rng.randrange(len(items2))] = bad
                out.append(_prog(names, items2))
    res = []
    for prog in out:
        ok, kinds = reference_verdict(prog)
        res.append(("routing", dict(prog=prog, expect_ok=1 if ok else 0, allowed=",".join(sorted(kinds)))))
    return res


def builder_sequences(tier, seed):
    """C15: call sequences with known defects and the error kinds that name a defect actually present"""
    S = []

    def bad(prog, *kinds):
        S.append(("routing", dict(prog=prog, expect_ok=0, allowed=",".join(kinds))))

    def good(prog):
        S.append(("routing", dict(prog=prog, expect_ok=1)))
    f_a, f_b, f_ab, f_ba = _func(["a"]), _func(["b"]), _func(["a", "b"]), _func(["b", "a"], ["a", "b"])
    good(_prog(["a"], [f_a]))
    good(_prog(["a", "b"], [f_ab, "I"]))
    good(_prog(["a", "b"], ["I", f_a, f_ba], x_first=True, init_pos="start"))
    good("P:a,b;XP;F:a:a;X;F:b,a:b,a;I")            # x / initial guess anywhere
    good("P:a;X;XP;X;XP;F:a:a")                     # repeated x / initial guess
    # --- model parameter list
    bad("P:;F:a:a;X;XP:0", "EmptyParameters")
    bad("P:a,a;F:a:a;X;XP", "DuplicateParameterNames")
    bad("P:a,b,a;F:a:a;F:b:b;X;XP", "DuplicateParameterNames")
    bad("P:a%2Cb;F:a%2Cb:a%2Cb;X;XP", "CommaInParameterNameNotAllowed")
    bad("P:a,b%2Cc;F:a:a;X;XP", "CommaInParameterNameNotAllowed", "UnusedParameter")
    # --- no basis function
    bad("P:a;X;XP", "EmptyModel")
    bad("P:a,b;X;XP;X", "EmptyModel", "UnusedParameter")
    # --- function parameter lists
    bad("P:a;F@1::;X;XP", "EmptyParameters", "UnusedParameter", "IncorrectParameterCount")
    bad("P:a,b;F@2:a,a:a;F:b:b;X;XP", "DuplicateParameterNames")
    # (a derivative supplied for a name that is not a model parameter is itself a defect: InvalidDerivative is admissible there)
    bad("P:a;F:z:z;X;XP", "FunctionParameterNotInModel", "UnusedParameter", "InvalidDerivative")
    bad("P:a;F:z:;X;XP", "FunctionParameterNotInModel", "UnusedParameter")
    bad("P:a,b;F:a,z:a,z;F:b:b;X;XP", "FunctionParameterNotInModel", "InvalidDerivative")
    bad("P:a,b;F:a,z:a;F:b:b;X;XP", "FunctionParameterNotInModel")
    bad("P:a;F@2:a:a;X;XP", "IncorrectParameterCount")
    bad("P:a,b;F@1:a,b:a,b;X;XP", "IncorrectParameterCount")
    bad("P:a,b;F@3:a,b:a,b;X;XP", "IncorrectParameterCount")
    bad("P:a%2Cb,c;F:c:c;X;XP", "CommaInParameterNameNotAllowed", "UnusedParameter")
    # --- derivatives
    bad("P:a,b;F:a,b:a;X;XP", "MissingDerivative")
    bad("P:a,b;F:a,b:b;I;X;XP", "MissingDerivative")
    bad("P:a;F:a:;X;XP", "MissingDerivative", "UnusedParameter")
    bad("P:a;F:a:a,a;X;XP", "DuplicateDerivative")
    bad("P:a,b;F:a,b:a,b,a;X;XP", "DuplicateDerivative")
    bad("P:a,b;F:a:a,b;F:b:b;X;XP", "InvalidDerivative")
    bad("P:a,b;F:a:b,a;F:b:b;X;XP", "InvalidDerivative")
    bad("P:a;F:a:a,z;X;XP", "InvalidDerivative")
    bad("P:a,b;F:a,b:a@1,b;X;XP", "IncorrectParameterCount")
    bad("P:a,b;F:a,b:a,b@3;X;XP", "IncorrectParameterCount")
    bad("P:a;F:a:a@2;X;XP", "IncorrectParameterCount")
    # --- unused model parameters
    bad("P:a,b;F:a:a;X;XP", "UnusedParameter")
    bad("P:a,b,c;F:a,c:a,c;I;X;XP", "UnusedParameter")
    bad("P:a,b;I;X;XP", "UnusedParameter")
    # --- partial_deriv not directly after a function
    bad("P:a;D:a;F:a:a;X;XP", "IllegalCallToPartialDeriv")
    bad("P:a;F:a:a;I;D:a;X;XP", "IllegalCallToPartialDeriv")
    bad("P:a;F:a:;X;D:a;XP", "IllegalCallToPartialDeriv", "MissingDerivative")
    bad("P:a;F:a:a;XP;D:a;X", "IllegalCallToPartialDeriv")
    bad("P:a;I;D:a;F:a:a;X;XP", "IllegalCallToPartialDeriv")
    # --- x / initial guess
    bad("P:a;F:a:a;XP", "MissingX")
    bad("P:a;F:a:a;X", "MissingInitialParameters")
    bad("P:a;F:a:a", "MissingX", "MissingInitialParameters")
    bad("P:a;F:a:a;X;XP:2", "IncorrectParameterCount")
    bad("P:a,b;F:a,b:a,b;X;XP:1", "IncorrectParameterCount")
    bad("P:a,b;F:a,b:a,b;X;XP:0", "IncorrectParameterCount")
    bad("P:a;XP:3;F:a:a;X;XP", "IncorrectParameterCount")          # sticky: a later correct call cannot repair it
    bad("P:a;D:a;F:a:a;X;XP;I", "IllegalCallToPartialDeriv")       # sticky
    bad("P:a,a;F:a:a;I;X;XP", "DuplicateParameterNames")           # sticky from the constructor
    bad("P:a;F:z:z;F:a:a;X;XP", "FunctionParameterNotInModel", "InvalidDerivative")     # sticky across functions
    bad("P:a;F:z:;F:a:a;X;XP", "FunctionParameterNotInModel")
    bad("P:a,b;F:a,b:a;F:a,b:a,b;X;XP", "MissingDerivative")       # sticky: complete later function does not help
    bad("P:a;F:a:a,a;F:a:a;X;XP", "DuplicateDerivative")
    if tier == "thorough":
        # arities up to 10 with one defect each
        for ar in range(4, 11):
            names = NAMES[:ar]
            bad(_prog(names, [_func(names, names[:-1])]), "MissingDerivative")
            bad(_prog(names, [_func(names, names + [names[0]])]), "DuplicateDerivative")
            bad(_prog(names, [_func(names, arity=ar - 1)]), "IncorrectParameterCount")
            good(_prog(names, [_func(names[::-1], names)]))
    return S


def relpar_cfgs(tier, seed):
    u, v = seeds(seed)
    C = []
    for (threads, kw) in [(1, dict(n=3, m=2, s=1, p=2, w="diag")), (2, dict(n=3, m=2, s=3, p=2, w="diag", mrhs=1, maxpaths=16)), (4, dict(n=3, m=2, s=1, p=2, w="none", eps="sym")),
                          (3, dict(n=2, m=2, s=5, p=1, w="none", mrhs=1, maxpaths=8)),
                          (2, dict(n=3, m=2, s=1, p=5, w="diag", maxpaths=8)),
                          (4, dict(n=2, m=2, s=9, p=1, w="none", mrhs=1, maxpaths=4)),
                          (16, dict(n=3, m=2, s=2, p=2, w="diag", mrhs=1, deriv_fail=1)), (3, dict(n=2, m=1, s=1, p=1, w="diag", real_svd=1))]:
        d = dict(useed=u, vseed=v, threads=threads)
        d.update(kw)
        C.append(("relpar", d))
    # the same, driven from INSIDE a worker of a dedicated pool: rayon splits injected work further than work that starts on
    # a worker, so only here does one job handle several Jacobian columns / right-hand sides on small pools
    for (threads, kw) in [(1, dict(n=3, m=2, s=1, p=3, w="diag", maxpaths=8)), (1, dict(n=3, m=2, s=3, p=4, w="none", mrhs=1, maxpaths=4)),
                          (2, dict(n=3, m=2, s=1, p=6, w="diag", maxpaths=4)), (4, dict(n=2, m=2, s=2, p=9, w="none", mrhs=1, maxpaths=2))]:
        d = dict(useed=u, vseed=v, threads=threads, install=1)
        d.update(kw)
        C.append(("relpar", d))
    if tier == "thorough":
        for threads in (1, 2, 3):
            for pp in (3, 5, 7):
                C.append(("relpar", dict(n=3, m=2, s=1 + pp % 2, p=pp, w="diag", mrhs=pp % 2, useed=v, vseed=u, threads=threads, install=1, maxpaths=4)))
        for threads in (1, 2, 3, 4, 8, 16):
            C.append(("relpar", dict(n=3, m=2, s=3 + threads % 3, p=1, w="diag", mrhs=1, useed=u, vseed=v, threads=threads, maxpaths=16)))
            C.append(("relpar", dict(n=4, m=2, s=2, p=2, w="diag", mrhs=1, useed=v, vseed=u, threads=threads)))
            C.append(("relpar", dict(n=3, m=2, s=1, p=3 + threads % 4, w="none", useed=u, vseed=v, threads=threads, maxpaths=8)))
            C.append(("relpar", dict(n=4, m=3, s=1, p=2, w="diag", useed=u + 1, vseed=v + 1, threads=threads, eps="neg")))
    return C


R_PROPS.update({
    "C11": dict(prefixes=["C11", "SVD", "C01", "C02", "C03"], cfgs=lambda t, s: relpar_cfgs(t, s), want={"par"},
                twins=[("core", dict(n=3, m=2, s=1, p=1, w="diag", eps="sym", par=1, twin=1, useed=2, vseed=5))], twin_prefixes=["C01", "C02", "C03"]),
    "C06": dict(prefixes=["C06", "SVD", "C02.weighted_data", "C02.residuals", "C01.closed_form"], want={"order"}, cfgs=lambda t, s: relw_cfgs(t, s),
                twins=[("relw", dict(n=3, m=2, s=1, p=1, w="diag", kind="scale", twin=1, useed=2, vseed=5))]),
    "C07": dict(prefixes=["C07", "SVD"], cfgs=lambda t, s: relmrhs_cfgs(t, s), twins=[("relmrhs", dict(n=3, m=2, s=2, p=1, w="diag", kind="columns", twin=1, useed=2, vseed=5))]),
    "C12": dict(check_divisors=False, prefixes=["C12"], cfgs=lambda t, s: stats_cfgs(t, s, {"ident", "guard"}), twins=[("stats", dict(n=4, m=2, p=1, w="diag", twin=1))]),
    "C13": dict(check_divisors=False, prefixes=["C13"], cfgs=lambda t, s: stats_cfgs(t, s, {"ident"}), twins=[("stats", dict(n=4, m=2, p=1, w="diag", twin=1))]),
    "C14": dict(check_divisors=False, prefixes=["C14"], cfgs=lambda t, s: stats_cfgs(t, s, {"ident"}), twins=[("stats", dict(n=4, m=2, p=1, w="diag", twin=1))]),
    "C15": dict(prefixes=["C15", "C16"], cfgs=lambda t, s: builder_sequences(t, s) + systematic_sequences(t, s), twins=[("routing", dict(prog="P:a,b;F:b,a:a,b;X;XP", twin=1))]),
    "C16": dict(prefixes=["C16"], cfgs=lambda t, s: routing_programs(t, s), twins=[("routing", dict(prog="P:a,b;F:b,a:a,b;X;XP", twin=1))]),
    "C17": dict(prefixes=["C17", "C16"], cfgs=lambda t, s: misuse_programs(t, s) + routing_programs("quick", s)[:12], twins=[("routing", dict(prog="P:a,b;F:b,a:a,b;X;XP", twin=1))]),
    "C18": dict(prefixes=["C18", "C01.coefficients_present", "C02.residuals", "SVD"], want={"basic", "order", "par"}),
    "C09": dict(prefixes=["C09", "C03.jacobian", "C10.fresh", "C02.residuals", "C01.closed_form", "SVD"], want={"faults"}, twins=[("core", dict(n=3, m=2, s=1, p=1, w="diag", hist=2, twin=1, useed=2, vseed=5))], twin_prefixes=["C09"]),
})
# C04: coherence of the state the optimizer leaves behind = C01/C02/C10 after update histories (incl. re-applying earlier parameters)
def symfit_cfgs(tier, seed, faults=False):
    """the real fit() -- real Levenberg-Marquardt driver on the real problem -- on an affine model Phi(alpha) = A + sum alpha_k B_k
    with one basis function (real nalgebra SVD); evaluation budgets patience*(P+1); paths are varied through budget, shape,
    weights and the default values (`salt`), not by flipping the several hundred decisions of one run"""
    base = dict(round_shadows=1, noflip=1)
    C = []
    if not faults:
        # salts 2 / 11 / 10: trajectories with a rejected trial step (the accepted parameters are re-applied), termination
        # `Orthogonal`, a long run that loses patience (surveyed once; the termination is recorded in the evidence)
        shapes = [dict(n=3, p=1, patience=1), dict(n=3, p=1, patience=3), dict(n=4, p=2, patience=3, salt=2), dict(n=3, p=1, patience=3, salt=2)]
        if tier == "thorough":
            shapes += [dict(n=3, p=1, patience=2, w="none", salt=1 + seed % 3), dict(n=3, p=1, patience=3, salt=11)]
        if tier == "thorough":
            shapes += [dict(n=3, p=1, patience=pt, salt=sl) for pt in (2, 4, 6) for sl in (3, 4, 5 + seed % 5)]
            shapes += [dict(n=4, p=2, patience=pt, salt=sl, w=w) for pt in (1, 2, 4) for sl in (6, 7) for w in ("diag", "none")]
            shapes += [dict(n=5, p=2, patience=2, salt=8), dict(n=4, p=3, patience=2, salt=9), dict(n=3, p=1, patience=5, salt=10)]
        for sh in shapes:
            C.append(("symfit", dict(base, **sh)))
        # two basis functions inside the loop: the model is defined through its factors (rotation of a fixed frame by
        # rational functions of alpha), planted afresh at every evaluation
        two = [dict(p=1, patience=1), dict(p=2, patience=2, salt=1 + seed % 3)]
        if tier == "thorough":
            two += [dict(p=1, n=4, patience=3, salt=2, w="none"), dict(p=1, patience=2, eps="sym"), dict(p=2, patience=2, salt=1, eps="neg")]
            two += [dict(p=1, patience=pt, salt=sl, useed=us) for pt in (2, 4) for sl in (3, 4) for us in (2, 3)]
            two += [dict(p=2, patience=pt, salt=sl, n=nn) for pt in (1, 3) for sl in (5, 6) for nn in (5, 6)]
        for sh in two:
            C.append(("symfit2", dict(base, **sh)))
    else:
        # a model failure at call index k of the fit (set_params / eval / derivative calls are counted together)
        ks = (0, 1, 2, 4, 7) if tier == "quick" else tuple(range(0, 14))
        for k in ks:
            C.append(("symfit", dict(base, n=3, p=1, patience=3, fail_at=k)))
            if tier == "thorough":
                C.append(("symfit", dict(base, n=4, p=2, patience=2, fail_at=k, persistent=1, salt=2)))
        C.append(("symfit", dict(base, n=3, p=1, patience=3, fail_at=3, persistent=1)))
        for k in ((1, 3, 5) if tier == "quick" else tuple(range(0, 10))):
            C.append(("symfit2", dict(base, p=1, patience=2, fail_at=k)))
    return C


R_PROPS["C04"] = dict(prefixes=["C01", "C02", "C10", "SVD", "C04"], want={"hist"}, cfgs=lambda t, s: symfit_cfgs(t, s),
                      twins=[("core", dict(n=3, m=2, s=1, p=1, w="diag", eps="sym", twin=1, useed=2, vseed=5)),
                             ("symfit", dict(n=3, p=1, patience=2, round_shadows=1, noflip=1, twin=1), ["C04"]),
                             ("symfit2", dict(p=1, patience=2, round_shadows=1, noflip=1, twin=1), ["C04", "C01", "C02"])])
R_PROPS["C09"]["cfgs"] = lambda t, s: symfit_cfgs(t, s, faults=True)


def relfit_cfgs(tier, seed, kind):
    """complete fits through two flavours in one term arena (sequential vs parallel; vector API vs one-column matrix API)"""
    base = dict(round_shadows=1, noflip=1, kind=kind)
    if kind == "par":
        C = [dict(n=3, p=1, patience=2, threads=3), dict(n=4, p=2, s=2, mrhs=1, patience=2, threads=2, salt=1 + seed % 3), dict(n=4, p=3, patience=1, threads=1, salt=2),
             dict(n=4, p=3, patience=1, threads=1, salt=3, install=1)]
        if tier == "thorough":
            C += [dict(n=3, p=1, patience=pt, threads=th, salt=sl) for pt in (1, 3, 5) for th in (1, 2, 4) for sl in (3, 4)]
            C += [dict(n=5, p=3, s=3, mrhs=1, patience=2, threads=th, salt=5) for th in (1, 2, 3)]
    else:
        C = [dict(n=3, p=1, patience=3), dict(n=4, p=2, patience=2, salt=1 + seed % 3, w="none")]
        if tier == "thorough":
            C += [dict(n=3, p=1, patience=pt, salt=sl) for pt in (1, 2, 5) for sl in (2, 3)]
    return [("relfit", dict(base, **c)) for c in C]


_c11 = R_PROPS["C11"]["cfgs"]
R_PROPS["C11"]["cfgs"] = lambda t, s: _c11(t, s) + relfit_cfgs(t, s, "par")
R_PROPS["C11"]["twins"] = R_PROPS["C11"]["twins"] + [("relfit", dict(round_shadows=1, noflip=1, kind="par", n=3, p=1, patience=2, threads=2, twin=1), ["C11.fit"])]
_c07 = R_PROPS["C07"]["cfgs"]
R_PROPS["C07"]["cfgs"] = lambda t, s: _c07(t, s) + relfit_cfgs(t, s, "onecol")
R_PROPS["C08"] = dict(prefixes=["C08"], cfgs=lambda t, s: degenerate_cfgs(t, s), twins=[], check_divisors=False)
R_PROPS["C01"]["prefixes"] = ["C01", "SVD"]
R_PROPS["C01"]["extra"] = ["lin"]
R_PROPS["C02"]["prefixes"] = ["C02", "SVD"]
R_PROPS["C03"]["prefixes"] = ["C03", "SVD"]
R_PROPS["C10"]["prefixes"] = ["C10", "SVD"]
EXTRA["lin"] = lin_cfgs


def degenerate_cfgs(tier, seed):
    """C08, degenerate shapes on the symbolic scalar: fewer observations than basis functions, square, a single observation;
    a panic on the explored paths (dimension mismatches do not depend on the values) is a fact `no_panic` = false"""
    u, v = seeds(seed)
    C = [("core", dict(n=2, m=3, s=1, p=1, w="diag", useed=u, vseed=v, maxpaths=8)),
         ("core", dict(n=2, m=3, s=2, p=2, w="none", mrhs=1, useed=u, vseed=v, hist=1, maxpaths=8)),
         ("core", dict(n=1, m=2, s=1, p=1, w="diag", useed=0, vseed=u, par=1, maxpaths=8)),
         ("core", dict(n=2, m=2, s=1, p=2, w="diag", useed=u, vseed=v, hist=4, maxpaths=8)),
         ("core", dict(n=1, m=1, s=2, p=1, w="none", real_svd=1, mrhs=1, maxpaths=8))]
    if tier == "thorough":
        C += [("core", dict(n=2, m=3, s=2, p=1, w="diag", mrhs=1, par=1, useed=v, vseed=u, maxpaths=16)),
              ("core", dict(n=1, m=3, s=1, p=2, w="diag", useed=u, vseed=v, hist=1, maxpaths=16)),
              ("core", dict(n=3, m=3, s=1, p=1, w="diag", useed=u, vseed=v, deriv_fail=0, maxpaths=16))]
    return C


def configs_for(prop, tier, seed):
    spec = R_PROPS[prop]
    C = core_cfgs(tier, seed, spec.get("want", set())) if spec.get("want") else []
    if spec.get("cfgs"):
        C += spec["cfgs"](tier, seed)
    for name in spec.get("extra", []):
        C += EXTRA[name](tier, seed)
    return C
