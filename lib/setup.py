"""setup_cmd: generate the patched nalgebra, warm the build caches, self-test the solvers."""
import os, shutil, subprocess, sys
from common import *


def solver_selftest():
    import smt
    sat = ["(declare-const x Real)", "(assert (> (* x x) 2.0))"]
    unsat = ["(declare-const x Real)", "(assert (< (* x x) 0.0))"]
    ok = True
    for label, argv, check in smt.SOLVER_CONFIGS:
        for (q, want) in ((sat, "sat"), (unsat, "unsat")):
            v = smt._run_one(label, argv, check, q, [], 20, None)
            print(f"solver {label}: {want} -> {v.result}")
            if v.result != want:
                ok = False
    return ok


def main():
    os.makedirs(SCRATCH, exist_ok=True)
    ensure_nalgebra()
    print("patched nalgebra at", NALGEBRA_PATCHED)
    ok = solver_selftest()
    import engine_r
    h = engine_r.Harness(tag="setup")
    h.build("dev")
    h.build("release")
    print(f"engine R harness built in {h.build_s:.0f}s")
    import engine_k
    engine_k.warm()
    import engine_m
    engine_m.warm()
    return 0 if ok else 2
