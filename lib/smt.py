"""SMT-LIB emission for Engine R term arenas and the solver portfolio."""
import os, re, subprocess, sys, time, hashlib, select
from fractions import Fraction
from common import uptime, log, ToolFailure

Z3_OLD = "/usr/bin/z3"
Z3_NEW = "z3-new"
CVC5 = "cvc5"


def q_smt(s):
    n, d = s.split("/")
    n, d = int(n), int(d)
    body = f"{abs(n)}.0" if d == 1 else f"(/ {abs(n)}.0 {d}.0)"
    return f"(- {body})" if n < 0 else body


class Arena:
    """Term DAG dumped by the harness (`nodes`), ids are topologically ordered."""

    def __init__(self, nodes):
        self.nodes = nodes
        self._shash = {}

    def name(self, i):
        n = self.nodes[i]
        k = n[0]
        if k == "c":
            return q_smt(n[1])
        if k == "v":
            return "v_" + re.sub(r"\W", "_", n[1])
        if k == "sqrt":
            return f"sqrt_{i}"
        return f"n_{i}"

    def cone(self, roots):
        seen = set()
        stack = [r for r in roots if r >= 0]
        while stack:
            i = stack.pop()
            if i in seen:
                continue
            seen.add(i)
            n = self.nodes[i]
            k = n[0]
            if k in ("+", "-", "*", "/"):
                stack += [n[1], n[2]]
            elif k in ("neg", "sqrt", "abs"):
                stack.append(n[1])
            elif k == "f":
                stack += n[2]
        return sorted(seen)

    def divisors(self, ids):
        return sorted({self.nodes[i][2] for i in ids if self.nodes[i][0] == "/"})

    def sqrts(self, ids):
        return [i for i in ids if self.nodes[i][0] == "sqrt"]

    def struct_hash(self, i):
        """structural hash of a term (stable across runs: independent of node numbering)"""
        h = self._shash.get(i)
        if h is not None:
            return h
        # iterative post-order
        stack = [i]
        while stack:
            j = stack[-1]
            if j in self._shash:
                stack.pop()
                continue
            n = self.nodes[j]
            k = n[0]
            kids = [n[1], n[2]] if k in ("+", "-", "*", "/") else ([n[1]] if k in ("neg", "sqrt", "abs") else (n[2] if k == "f" else []))
            missing = [c for c in kids if c not in self._shash]
            if missing:
                stack += missing
                continue
            if k in ("c", "v"):
                s = f"{k}:{n[1]}"
            elif k == "f":
                s = f"f:{n[1]}(" + ",".join(self._shash[c] for c in kids) + ")"
            elif k in ("+", "*"):
                s = k + "(" + ",".join(sorted(self._shash[c] for c in kids)) + ")"
            else:
                s = k + "(" + ",".join(self._shash[c] for c in kids) + ")"
            self._shash[j] = hashlib.sha1(s.encode()).hexdigest()[:16]
            stack.pop()
        return self._shash[i]

    def definitions(self, ids):
        """SMT-LIB declarations/definitions for the given (cone-closed, sorted) node ids."""
        out = []
        funs = {}
        for i in ids:
            n = self.nodes[i]
            k = n[0]
            if k == "c":
                continue
            if k == "v":
                out.append(f"(declare-const {self.name(i)} Real)")
            elif k == "sqrt":
                x = self.name(n[1])
                out.append(f"(declare-const sqrt_{i} Real)")
                out.append(f"(assert (>= sqrt_{i} 0.0))")
                out.append(f"(assert (= (* sqrt_{i} sqrt_{i}) {x}))")
            elif k == "f":
                fname = "uf_" + re.sub(r"\W", "_", n[1]) + f"_{len(n[2])}"
                if fname not in funs:
                    funs[fname] = len(n[2])
                    out.append(f"(declare-fun {fname} ({' '.join(['Real'] * len(n[2]))}) Real)")
                args = " ".join(self.name(a) for a in n[2])
                body = f"({fname} {args})" if n[2] else fname
                out.append(f"(define-fun n_{i} () Real {body})")
            else:
                if k in ("+", "-", "*", "/"):
                    body = f"({k} {self.name(n[1])} {self.name(n[2])})"
                elif k == "neg":
                    body = f"(- {self.name(n[1])})"
                elif k == "abs":
                    x = self.name(n[1])
                    body = f"(ite (>= {x} 0.0) {x} (- {x}))"
                else:
                    raise ToolFailure(f"unknown node kind {k}")
                out.append(f"(define-fun n_{i} () Real {body})")
        return out

    def rel(self, a, op, b, outcome=True):
        x, y = self.name(a), self.name(b)
        if op == "!=":
            e = f"(not (= {x} {y}))"
        else:
            e = f"({op} {x} {y})"
        return e if outcome else f"(not {e})"

    def has_uf(self, ids):
        return any(self.nodes[i][0] == "f" for i in ids)


# ---------------------------------------------------------------------------------------------
# solvers
# ---------------------------------------------------------------------------------------------
class Verdict:
    def __init__(self, result, solver, secs, note=""):
        self.result, self.solver, self.secs, self.note = result, solver, secs, note

    def __repr__(self):
        return f"{self.result}[{self.solver},{self.secs:.2f}s{',' + self.note if self.note else ''}]"


def _parse_answer(out):
    if "(error" in out:
        return "error"
    toks = [l.strip() for l in out.splitlines() if l.strip() in ("sat", "unsat", "unknown", "timeout")]
    if not toks:
        return "unknown"
    return toks[-1] if toks[-1] != "timeout" else "unknown"


SOLVER_CONFIGS = [
    # (label, argv builder, check-sat command)
    ("z3-4.8.12", lambda t: [Z3_OLD, "-in", f"-T:{t}"], "(check-sat)"),
    ("z3-4.8.12/nlsat", lambda t: [Z3_OLD, "-in", f"-T:{t}"], "(check-sat-using (then (! simplify :som true) qfnra-nlsat))"),
    ("z3-5.1.0", lambda t: [Z3_NEW, "-in", f"-T:{t}"], "(check-sat)"),
    ("z3-5.1.0/nlsat", lambda t: [Z3_NEW, "-in", f"-T:{t}"], "(check-sat-using (then (! simplify :som true) qfnra-nlsat))"),
    ("cvc5-1.0", lambda t: [CVC5, "--lang", "smt2", f"--tlimit={t * 1000}"], "(check-sat)"),
]


def solve_text(base_lines, goal_lines, timeout_s, configs=None, uf=False, stats=None):
    """Run the portfolio sequentially on one query until a definite answer.  Returns Verdict."""
    verdicts = []
    for label, argv, check in (configs or SOLVER_CONFIGS):
        if uf and "nlsat" in label:
            continue
        head = ["(set-logic ALL)"] if label.startswith("cvc5") else []
        text = "\n".join(head + base_lines + goal_lines + [check, "(exit)"]) + "\n"
        t0 = uptime()
        try:
            p = subprocess.run(argv(timeout_s), input=text, text=True, capture_output=True, timeout=timeout_s + 10)
            ans = _parse_answer(p.stdout + p.stderr)
        except (subprocess.TimeoutExpired, FileNotFoundError) as e:
            ans = "unknown"
        dt = uptime() - t0
        if stats is not None:
            stats["queries"] = stats.get("queries", 0) + 1
            stats["solver_s"] = stats.get("solver_s", 0.0) + dt
            stats.setdefault("by_solver", {}).setdefault(label, [0, 0.0])
            stats["by_solver"][label][0] += 1
            stats["by_solver"][label][1] += dt
        v = Verdict(ans, label, dt)
        verdicts.append(v)
        if ans in ("sat", "unsat"):
            return v, verdicts
    return Verdict("unknown", "portfolio", sum(v.secs for v in verdicts), ";".join(map(repr, verdicts))), verdicts


class Incremental:
    """One z3 process kept alive (push/pop) for batches of small queries."""

    def __init__(self, base_lines, exe=Z3_OLD, per_query_s=10, label="z3-4.8.12/inc"):
        self.label = label
        self.per_query_s = per_query_s
        self.p = subprocess.Popen([exe, "-in", f"-t:{int(per_query_s * 1000)}"], stdin=subprocess.PIPE, stdout=subprocess.PIPE, stderr=subprocess.STDOUT, text=True, bufsize=1)
        self._send("\n".join(base_lines) + "\n(echo \"READY\")\n")
        out = self._read_until("READY", 60)
        self.base_error = "(error" in out

    def _send(self, s):
        self.p.stdin.write(s)
        self.p.stdin.flush()

    def _read_until(self, marker, timeout):
        buf = []
        t_end = time.time() + timeout
        while time.time() < t_end:
            r, _, _ = select.select([self.p.stdout], [], [], max(0.0, t_end - time.time()))
            if not r:
                break
            line = self.p.stdout.readline()
            if not line:
                break
            buf.append(line)
            if marker in line:
                return "".join(buf)
        return "".join(buf) + "\n[reader-timeout]"

    def check(self, goal_lines, want_model_of=None):
        t0 = uptime()
        q = "(push)\n" + "\n".join(goal_lines) + "\n(check-sat)\n"
        if want_model_of:
            q += "(echo \"MODEL\")\n(get-value (" + " ".join(want_model_of) + "))\n"
        q += "(pop)\n(echo \"DONE\")\n"
        try:
            self._send(q)
        except BrokenPipeError:
            return Verdict("unknown", self.label, uptime() - t0, "solver died"), ""
        out = self._read_until("DONE", self.per_query_s + 15)
        dt = uptime() - t0
        if "[reader-timeout]" in out:
            self.close()
            return Verdict("unknown", self.label, dt, "reader timeout"), out
        head = out.split("MODEL")[0]
        ans = _parse_answer(head)
        if self.base_error:
            ans = "error"
        return Verdict(ans, self.label, dt), out

    def close(self):
        try:
            self.p.kill()
        except Exception:
            pass

    def alive(self):
        return self.p.poll() is None


def parse_get_value(text):
    """parse z3 `(get-value ...)` output into {name: Fraction or float}"""
    res = {}
    m = re.search(r"MODEL\s*(.*)\(?", text, re.S)
    body = text.split("MODEL", 1)[1] if "MODEL" in text else text
    # tokens
    toks = re.findall(r"\(|\)|[^\s()]+", body)
    pos = 0

    def parse():
        nonlocal pos
        t = toks[pos]
        pos += 1
        if t == "(":
            lst = []
            while toks[pos] != ")":
                lst.append(parse())
            pos += 1
            return lst
        return t

    def ev(e):
        if isinstance(e, str):
            try:
                if e.endswith("?"):
                    e = e[:-1]
                return Fraction(e)
            except Exception:
                return None
        if not e:
            return None
        op = e[0]
        if op == "-" and len(e) == 2:
            v = ev(e[1])
            return None if v is None else -v
        if op == "/" and len(e) == 3:
            a, b = ev(e[1]), ev(e[2])
            return None if a is None or b is None or b == 0 else a / b
        if op == "root-obj":
            return None
        return None

    try:
        while pos < len(toks) and toks[pos] != "(":
            pos += 1
        tree = parse()
    except IndexError:
        return res
    for item in tree:
        if isinstance(item, list) and len(item) == 2 and isinstance(item[0], str):
            v = ev(item[1])
            if v is not None:
                res[item[0]] = v
    return res
