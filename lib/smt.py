"""SMT-LIB emission for Engine R term arenas and the solver portfolio."""
import os, re, subprocess, sys, time, hashlib, select
from fractions import Fraction
from common import uptime, log, ToolFailure

Z3_OLD = "/usr/bin/z3"
Z3_NEW = "z3-new"
CVC5 = "cvc5"


def q_smt(s):
    n, d = s.split("/")
    n, d = int(n), int(d)
    body = f"{abs(n)}.0" if d == 1 else f"(/ {abs(n)}.0 {d}.0)"
    return f"(- {body})" if n < 0 else body


class Arena:
    """Term DAG dumped by the harness (`nodes`), ids are topologically ordered."""

    def __init__(self, nodes):
        self.nodes = nodes
        self._shash = {}

    def name(self, i):
        n = self.nodes[i]
        k = n[0]
        if k == "c":
            return q_smt(n[1])
        if k == "v":
            return "v_" + re.sub(r"\W", "_", n[1])
        if k == "sqrt":
            return f"sqrt_{i}"
        return f"n_{i}"

    def cone(self, roots, stop=()):
        """nodes reachable from `roots`; nodes in `stop` are included but not expanded (abstraction points)"""
        seen = set()
        stack = [r for r in roots if r >= 0]
        while stack:
            i = stack.pop()
            if i in seen:
                continue
            seen.add(i)
            if i in stop:
                continue
            n = self.nodes[i]
            k = n[0]
            if k in ("+", "-", "*", "/"):
                stack += [n[1], n[2]]
            elif k in ("neg", "sqrt", "abs"):
                stack.append(n[1])
            elif k == "f":
                stack += n[2]
        return sorted(seen)

    def divisors(self, ids):
        return sorted({self.nodes[i][2] for i in ids if self.nodes[i][0] == "/"})

    def sqrts(self, ids):
        return [i for i in ids if self.nodes[i][0] == "sqrt"]

    def struct_hash(self, i):
        """structural hash of a term (stable across runs: independent of node numbering)"""
        h = self._shash.get(i)
        if h is not None:
            return h
        # iterative post-order
        stack = [i]
        while stack:
            j = stack[-1]
            if j in self._shash:
                stack.pop()
                continue
            n = self.nodes[j]
            k = n[0]
            kids = [n[1], n[2]] if k in ("+", "-", "*", "/") else ([n[1]] if k in ("neg", "sqrt", "abs") else (n[2] if k == "f" else []))
            missing = [c for c in kids if c not in self._shash]
            if missing:
                stack += missing
                continue
            if k in ("c", "v"):
                s = f"{k}:{n[1]}"
            elif k == "f":
                s = f"f:{n[1]}(" + ",".join(self._shash[c] for c in kids) + ")"
            elif k in ("+", "*"):
                s = k + "(" + ",".join(sorted(self._shash[c] for c in kids)) + ")"
            else:
                s = k + "(" + ",".join(self._shash[c] for c in kids) + ")"
            self._shash[j] = hashlib.sha1(s.encode()).hexdigest()[:16]
            stack.pop()
        return self._shash[i]

    def kids(self, i):
        n = self.nodes[i]
        k = n[0]
        if k in ("+", "-", "*", "/"):
            return [n[1], n[2]]
        if k in ("neg", "sqrt", "abs"):
            return [n[1]]
        if k == "f":
            return list(n[2])
        return []

    def nonneg_map(self):
        """syntactic sign analysis: nodes that are non-negative for every value of the inputs (over the reals)"""
        if getattr(self, "_nonneg", None) is None:
            nn = [False] * len(self.nodes)
            for i, n in enumerate(self.nodes):
                k = n[0]
                if k == "c":
                    nn[i] = Fraction(n[1]) >= 0
                elif k in ("abs", "sqrt"):
                    nn[i] = True
                elif k == "*":
                    nn[i] = (n[1] == n[2]) or (nn[n[1]] and nn[n[2]])
                elif k in ("+", "/"):
                    nn[i] = nn[n[1]] and nn[n[2]]
            self._nonneg = nn
        return self._nonneg

    def float_values(self, vars_, dps=0):
        """value of every node at the given input values (dict name -> 'p/q'); None where undefined.
        dps = 0: machine floats; dps > 0: mpmath with that many decimal digits (exact enough to re-check decisions)"""
        import math
        if dps:
            import mpmath
            mpmath.mp.dps = dps
            conv = lambda q: mpmath.mpf(q.numerator) / mpmath.mpf(q.denominator)
            sqrt = lambda x: mpmath.sqrt(x) if x >= 0 else (mpmath.mpf(0) if x > -1e-30 else None)
        else:
            conv = float
            sqrt = lambda x: math.sqrt(x) if x >= 0 else None
        val = [None] * len(self.nodes)
        for i, n in enumerate(self.nodes):
            k = n[0]
            try:
                if k == "c":
                    val[i] = conv(Fraction(n[1]))
                elif k == "v":
                    val[i] = conv(Fraction(vars_[n[1]]))
                elif k == "+":
                    val[i] = val[n[1]] + val[n[2]]
                elif k == "-":
                    val[i] = val[n[1]] - val[n[2]]
                elif k == "*":
                    val[i] = val[n[1]] * val[n[2]]
                elif k == "/":
                    val[i] = val[n[1]] / val[n[2]]
                elif k == "neg":
                    val[i] = -val[n[1]]
                elif k == "abs":
                    val[i] = abs(val[n[1]])
                elif k == "sqrt":
                    val[i] = sqrt(val[n[1]])
            except (TypeError, ZeroDivisionError, KeyError, OverflowError, ValueError):
                val[i] = None
        return val

    def abstract_definitions(self, roots, free):
        """declarations/definitions of the cone of `roots` cut at the nodes in `free`, which become unconstrained
        constants (plus `>= 0` where the sign analysis shows it).  Every model of the full definitions is a model of
        these, so `unsat` carries over to the real terms; `sat` means nothing."""
        ids = sorted(self.cone(roots, stop=free))
        nn = self.nonneg_map()
        out = []
        for i in ids:
            n = self.nodes[i]
            k = n[0]
            if k == "c":
                continue
            if k == "v":
                out.append(f"(declare-const {self.name(i)} Real)")
            elif i in free:
                out.append(f"(declare-const {self.name(i)} Real)")
                if nn[i]:
                    out.append(f"(assert (>= {self.name(i)} 0.0))")
            elif k == "sqrt":
                x = self.name(n[1])
                out += [f"(declare-const sqrt_{i} Real)", f"(assert (>= sqrt_{i} 0.0))", f"(assert (= (* sqrt_{i} sqrt_{i}) {x}))"]
            elif k == "f":
                raise ToolFailure("abstract_definitions: uninterpreted functions not supported")
            else:
                if k in ("+", "-", "*", "/"):
                    body = f"({k} {self.name(n[1])} {self.name(n[2])})"
                elif k == "neg":
                    body = f"(- {self.name(n[1])})"
                elif k == "abs":
                    x = self.name(n[1])
                    body = f"(ite (>= {x} 0.0) {x} (- {x}))"
                else:
                    raise ToolFailure(f"unknown node kind {k}")
                out.append(f"(define-fun n_{i} () Real {body})")
        return out, ids

    def definitions(self, ids, constraints=None):
        """SMT-LIB declarations/definitions for the given (cone-closed, sorted) node ids.  If `constraints`
        is a dict, the defining assertions of sqrt nodes are put there (node id -> lines) instead of into
        the output, so that a query only carries the constraints of the nodes in its own cone."""
        out = []
        funs = {}
        for i in ids:
            n = self.nodes[i]
            k = n[0]
            if k == "c":
                continue
            if k == "v":
                out.append(f"(declare-const {self.name(i)} Real)")
            elif k == "sqrt":
                x = self.name(n[1])
                out.append(f"(declare-const sqrt_{i} Real)")
                cons = [f"(assert (>= sqrt_{i} 0.0))", f"(assert (= (* sqrt_{i} sqrt_{i}) {x}))"]
                if constraints is None:
                    out += cons
                else:
                    constraints[i] = cons
            elif k == "f":
                fname = "uf_" + re.sub(r"\W", "_", n[1]) + f"_{len(n[2])}"
                if fname not in funs:
                    funs[fname] = len(n[2])
                    out.append(f"(declare-fun {fname} ({' '.join(['Real'] * len(n[2]))}) Real)")
                args = " ".join(self.name(a) for a in n[2])
                body = f"({fname} {args})" if n[2] else fname
                out.append(f"(define-fun n_{i} () Real {body})")
            else:
                if k in ("+", "-", "*", "/"):
                    body = f"({k} {self.name(n[1])} {self.name(n[2])})"
                elif k == "neg":
                    body = f"(- {self.name(n[1])})"
                elif k == "abs":
                    x = self.name(n[1])
                    body = f"(ite (>= {x} 0.0) {x} (- {x}))"
                else:
                    raise ToolFailure(f"unknown node kind {k}")
                out.append(f"(define-fun n_{i} () Real {body})")
        return out

    def rel(self, a, op, b, outcome=True):
        x, y = self.name(a), self.name(b)
        if op == "!=":
            e = f"(not (= {x} {y}))"
        else:
            e = f"({op} {x} {y})"
        return e if outcome else f"(not {e})"

    def has_uf(self, ids):
        return any(self.nodes[i][0] == "f" for i in ids)


# ---------------------------------------------------------------------------------------------
# solvers
# ---------------------------------------------------------------------------------------------
class Verdict:
    def __init__(self, result, solver, secs, note=""):
        self.result, self.solver, self.secs, self.note = result, solver, secs, note

    def __repr__(self):
        return f"{self.result}[{self.solver},{self.secs:.2f}s{',' + self.note if self.note else ''}]"


def _parse_answer(out):
    if "(error" in out:
        return "error"
    toks = [l.strip() for l in out.splitlines() if l.strip() in ("sat", "unsat", "unknown", "timeout")]
    if not toks:
        return "unknown"
    return toks[-1] if toks[-1] != "timeout" else "unknown"


SOLVER_CONFIGS = [
    # (label, argv builder, check-sat command)
    ("z3-4.8.12", lambda t: [Z3_OLD, "-in", f"-T:{t}"], "(check-sat)"),
    ("z3-4.8.12/nlsat", lambda t: [Z3_OLD, "-in", f"-T:{t}"], "(check-sat-using (then (! simplify :som true) qfnra-nlsat))"),
    ("z3-5.1.0", lambda t: [Z3_NEW, "-in", f"-T:{t}"], "(check-sat)"),
    ("z3-5.1.0/nlsat", lambda t: [Z3_NEW, "-in", f"-T:{t}"], "(check-sat-using (then (! simplify :som true) qfnra-nlsat))"),
    ("cvc5-1.0", lambda t: [CVC5, "--lang", "smt2", f"--tlimit={t * 1000}"], "(check-sat)"),
]


def _run_one(label, argv, check, base_lines, goal_lines, timeout_s, stats, procs=None):
    head = ["(set-logic ALL)"] if label.startswith("cvc5") else []
    text = "\n".join(head + base_lines + goal_lines + [check, "(exit)"]) + "\n"
    t0 = uptime()
    try:
        p = subprocess.Popen(argv(timeout_s), stdin=subprocess.PIPE, stdout=subprocess.PIPE, stderr=subprocess.STDOUT, text=True)
        if procs is not None:
            procs.append(p)
        out, _ = p.communicate(text, timeout=timeout_s + 10)
        ans = _parse_answer(out)
    except subprocess.TimeoutExpired:
        p.kill()
        ans = "unknown"
    except (FileNotFoundError, BrokenPipeError, OSError):
        ans = "unknown"
    dt = uptime() - t0
    if stats is not None:
        stats["queries"] = stats.get("queries", 0) + 1
        stats["solver_s"] = stats.get("solver_s", 0.0) + dt
        stats.setdefault("by_solver", {}).setdefault(label, [0, 0.0])
        stats["by_solver"][label][0] += 1
        stats["by_solver"][label][1] += dt
    return Verdict(ans, label, dt)


def solve_variants(variants, timeout_s, configs=None, uf=False, stats=None):
    """variants: list of (label, base_lines, goal_lines) -- alternative encodings of the same query.
    Stage 1: z3 4.8.12 with a short cap on each variant in turn.  Stage 2: all remaining
    (variant x configuration) pairs race in parallel with the full cap; first definite answer wins."""
    from concurrent.futures import ThreadPoolExecutor, as_completed
    cfgs = [c for c in (configs or SOLVER_CONFIGS) if not (uf and "nlsat" in c[0])]
    verdicts = []
    first = cfgs[0]
    for (vl, base, goal) in variants:
        v = _run_one(first[0] + ":" + vl, first[1], first[2], base, goal, min(3, timeout_s), stats)
        verdicts.append(v)
        if v.result in ("sat", "unsat"):
            return v, verdicts
    jobs = []
    for (vl, base, goal) in variants:
        for c in (cfgs[1:] + ([first] if timeout_s > 3 else [])):
            jobs.append((c[0] + ":" + vl, c[1], c[2], base, goal))
    if not jobs:
        return Verdict("unknown", "portfolio", sum(v.secs for v in verdicts), ";".join(map(repr, verdicts))), verdicts
    procs = []
    winner = None
    with ThreadPoolExecutor(max_workers=len(jobs)) as ex:
        futs = [ex.submit(_run_one, j[0], j[1], j[2], j[3], j[4], timeout_s, stats, procs) for j in jobs]
        for f in as_completed(futs):
            r = f.result()
            verdicts.append(r)
            if r.result in ("sat", "unsat") and winner is None:
                winner = r
                for p in procs:
                    try:
                        p.kill()
                    except Exception:
                        pass
    if winner:
        return winner, verdicts
    return Verdict("unknown", "portfolio", max(v.secs for v in verdicts), ";".join(map(repr, verdicts[:4]))), verdicts


def solve_text(base_lines, goal_lines, timeout_s, configs=None, uf=False, stats=None):
    return solve_variants([("plain", base_lines, goal_lines)], timeout_s, configs=configs, uf=uf, stats=stats)


class Incremental:
    """One z3 process kept alive (push/pop) for batches of small queries."""

    def __init__(self, base_lines, exe=Z3_OLD, per_query_s=10, label="z3-4.8.12/inc"):
        self.label = label
        self.per_query_s = per_query_s
        self.p = subprocess.Popen([exe, "-in", f"-t:{int(per_query_s * 1000)}"], stdin=subprocess.PIPE, stdout=subprocess.PIPE, stderr=subprocess.STDOUT, text=True, bufsize=1)
        self._send("\n".join(base_lines) + "\n(echo \"READY\")\n")
        out = self._read_until("READY", 60)
        self.base_error = "(error" in out

    def _send(self, s):
        self.p.stdin.write(s)
        self.p.stdin.flush()

    def _read_until(self, marker, timeout):
        buf = []
        t_end = time.time() + timeout
        while time.time() < t_end:
            r, _, _ = select.select([self.p.stdout], [], [], max(0.0, t_end - time.time()))
            if not r:
                break
            line = self.p.stdout.readline()
            if not line:
                break
            buf.append(line)
            if marker in line:
                return "".join(buf)
        return "".join(buf) + "\n[reader-timeout]"

    def check(self, goal_lines, want_model_of=None):
        t0 = uptime()
        q = "(push)\n" + "\n".join(goal_lines) + "\n(check-sat)\n"
        if want_model_of:
            q += "(echo \"MODEL\")\n(get-value (" + " ".join(want_model_of) + "))\n"
        q += "(pop)\n(echo \"DONE\")\n"
        try:
            self._send(q)
        except BrokenPipeError:
            return Verdict("unknown", self.label, uptime() - t0, "solver died"), ""
        out = self._read_until("DONE", self.per_query_s + 15)
        dt = uptime() - t0
        if "[reader-timeout]" in out:
            self.close()
            return Verdict("unknown", self.label, dt, "reader timeout"), out
        head = out.split("MODEL")[0]
        ans = _parse_answer(head)
        if self.base_error:
            ans = "error"
        return Verdict(ans, self.label, dt), out

    def close(self):
        try:
            self.p.kill()
        except Exception:
            pass

    def alive(self):
        return self.p.poll() is None


def parse_get_value(text):
    """parse z3 `(get-value ...)` output into {name: Fraction or float}"""
    res = {}
    m = re.search(r"MODEL\s*(.*)\(?", text, re.S)
    body = text.split("MODEL", 1)[1] if "MODEL" in text else text
    # tokens
    toks = re.findall(r"\(|\)|[^\s()]+", body)
    pos = 0

    def parse():
        nonlocal pos
        t = toks[pos]
        pos += 1
        if t == "(":
            lst = []
            while toks[pos] != ")":
                lst.append(parse())
            pos += 1
            return lst
        return t

    def ev(e):
        if isinstance(e, str):
            try:
                if e.endswith("?"):
                    e = e[:-1]
                return Fraction(e)
            except Exception:
                return None
        if not e:
            return None
        op = e[0]
        if op == "-" and len(e) == 2:
            v = ev(e[1])
            return None if v is None else -v
        if op == "/" and len(e) == 3:
            a, b = ev(e[1]), ev(e[2])
            return None if a is None or b is None or b == 0 else a / b
        if op == "root-obj":
            return None
        return None

    try:
        while pos < len(toks) and toks[pos] != "(":
            pos += 1
        tree = parse()
    except IndexError:
        return res
    for item in tree:
        if isinstance(item, list) and len(item) == 2 and isinstance(item[0], str):
            v = ev(item[1])
            if v is not None:
                res[item[0]] = v
    return res


# ---------------------------------------------------------------------------------------------
# fraction-free encoding: every node is (numerator term, denominator monomial over atoms)
# ---------------------------------------------------------------------------------------------
class FF:
    """Fraction-free view of an Arena: node i = num_i / mono(den_i), where den_i is a multiset of atoms
    (numerator terms of divisors).  Equalities become polynomial identities; every atom is asserted
    non-zero (the divisor-non-zero obligations are discharged separately in the plain encoding)."""

    def __init__(self, arena, ids, free=()):
        self.a = arena
        self.ids = ids
        self.free = set(free)   # abstraction points: treated as variables
        self.num = {}      # node id -> smt term (name)
        self.den = {}      # node id -> dict atom -> exponent
        self.lines = []
        self.atoms = set()
        self.constraints = {}   # node id -> defining assertions (sqrt definitions, divisor atoms non-zero)
        self._build()

    @staticmethod
    def _mono(d):
        fs = []
        for atom, e in sorted(d.items()):
            fs += [atom] * e
        if not fs:
            return None
        return fs[0] if len(fs) == 1 else "(* " + " ".join(fs) + ")"

    @staticmethod
    def _lcm(d1, d2):
        out = dict(d1)
        for k, e in d2.items():
            out[k] = max(out.get(k, 0), e)
        return out

    @staticmethod
    def _quot(big, small):
        out = {}
        for k, e in big.items():
            r = e - small.get(k, 0)
            if r > 0:
                out[k] = r
        return out

    def _times(self, term, mono):
        m = self._mono(mono)
        return term if m is None else f"(* {term} {m})"

    def plain(self, i):
        """the value of node i as an ordinary term (with division)"""
        m = self._mono(self.den[i])
        return self.num[i] if m is None else f"(/ {self.num[i]} {m})"

    def _build(self):
        A = self.a
        funs = {}
        L = self.lines
        for i in self.ids:
            n = A.nodes[i]
            k = n[0]
            if k == "c":
                self.num[i], self.den[i] = q_smt(n[1]), {}
            elif k == "v":
                L.append(f"(declare-const {A.name(i)} Real)")
                self.num[i], self.den[i] = A.name(i), {}
            elif i in self.free:
                L.append(f"(declare-const {A.name(i)} Real)")
                if A.nonneg_map()[i]:
                    L.append(f"(assert (>= {A.name(i)} 0.0))")
                self.num[i], self.den[i] = A.name(i), {}
            elif k == "sqrt":
                x = n[1]
                L.append(f"(declare-const sqrt_{i} Real)")
                cons = [f"(assert (>= sqrt_{i} 0.0))"]
                m = self._mono(self.den[x])
                lhs = f"(* sqrt_{i} sqrt_{i})" if m is None else f"(* sqrt_{i} sqrt_{i} {m})"
                cons.append(f"(assert (= {lhs} {self.num[x]}))")
                if m is not None:
                    # sqrt(n/d) is only meaningful for n/d >= 0
                    cons.append(f"(assert (>= (* {self.num[x]} {m}) 0.0))")
                self.constraints[i] = cons
                self.num[i], self.den[i] = f"sqrt_{i}", {}
            elif k == "f":
                fname = "uf_" + re.sub(r"\W", "_", n[1]) + f"_{len(n[2])}"
                if fname not in funs:
                    funs[fname] = 1
                    L.append(f"(declare-fun {fname} ({' '.join(['Real'] * len(n[2]))}) Real)")
                args = " ".join(self.plain(a) for a in n[2])
                L.append(f"(define-fun ff_{i} () Real {('(' + fname + ' ' + args + ')') if n[2] else fname})")
                self.num[i], self.den[i] = f"ff_{i}", {}
            elif k in ("+", "-"):
                x, y = n[1], n[2]
                lcm = self._lcm(self.den[x], self.den[y])
                if sum(lcm.values()) > 48:
                    raise ToolFailure("fraction-free encoding: denominator monomial too large")
                tx = self._times(self.num[x], self._quot(lcm, self.den[x]))
                ty = self._times(self.num[y], self._quot(lcm, self.den[y]))
                L.append(f"(define-fun ff_{i} () Real ({k} {tx} {ty}))")
                self.num[i], self.den[i] = f"ff_{i}", lcm
            elif k == "*":
                x, y = n[1], n[2]
                d = dict(self.den[x])
                for kk, e in self.den[y].items():
                    d[kk] = d.get(kk, 0) + e
                if sum(d.values()) > 48:
                    raise ToolFailure("fraction-free encoding: denominator monomial too large")
                L.append(f"(define-fun ff_{i} () Real (* {self.num[x]} {self.num[y]}))")
                self.num[i], self.den[i] = f"ff_{i}", d
            elif k == "/":
                x, y = n[1], n[2]
                d = dict(self.den[x])
                if A.nodes[y][0] == "c":
                    L.append(f"(define-fun ff_{i} () Real (/ {self._times(self.num[x], self.den[y])} {self.num[y]}))")
                else:
                    atom = self.num[y]
                    self.atoms.add(atom)
                    self.constraints.setdefault(i, []).append(f"(assert (not (= {atom} 0.0)))")
                    d[atom] = d.get(atom, 0) + 1
                    L.append(f"(define-fun ff_{i} () Real {self._times(self.num[x], self.den[y])})")
                self.num[i], self.den[i] = f"ff_{i}", d
            elif k == "neg":
                L.append(f"(define-fun ff_{i} () Real (- {self.num[n[1]]}))")
                self.num[i], self.den[i] = f"ff_{i}", dict(self.den[n[1]])
            elif k == "abs":
                x = self.plain(n[1])
                L.append(f"(define-fun ff_{i} () Real (ite (>= {x} 0.0) {x} (- {x})))")
                self.num[i], self.den[i] = f"ff_{i}", {}
            else:
                raise ToolFailure(f"unknown node kind {k}")

    def constraints_for(self, cone_ids):
        out = []
        seen = set()
        for i in cone_ids:
            for l in self.constraints.get(i, []):
                if l not in seen:
                    seen.add(l)
                    out.append(l)
        return out

    def rel(self, a, op, b, outcome=True):
        if op in ("=", "!="):
            lcm = self._lcm(self.den[a], self.den[b])
            x = self._times(self.num[a], self._quot(lcm, self.den[a]))
            y = self._times(self.num[b], self._quot(lcm, self.den[b]))
            e = f"(= {x} {y})"
            if op == "!=":
                e = f"(not {e})"
        else:
            e = f"({op} {self.plain(a)} {self.plain(b)})"
        return e if outcome else f"(not {e})"
